"""C18 - batching places every state exactly once and round-trips losslessly."""
from __future__ import annotations

import json
import random

from . import common as C


def points(tier: str, rng: random.Random):
    """(n_states, max_batch_size, devices) points; every distinct array shape costs one XLA
    compile in the real code (~0.1-0.3 s), which is what bounds the quick tier."""
    ds = range(1, 9)
    pts = set()

    def relevant(n):
        b = {1, 2, 3, 7, n - 1, n, n + 1, n + 3, 63, 64, 65, 1024}
        for d in ds:
            c = -(-n // d)
            b |= {c - 1, c, c + 1}
        return {x for x in b if x >= 1}

    if tier == "quick":
        full_n, sel_n, per_n = 10, [11, 13, 17, 23, 31, 37, 63, 64, 65, 97, 127, 128, 129, 130, 193, 257], 5
    else:
        full_n, sel_n, per_n = 40, list(range(41, 200, 3)) + [509, 521, 640, 641, 700], 12
    for n in range(1, full_n + 1):
        for b in set(range(1, n + 4)) | {64, 1024}:
            for d in ds:
                pts.add((n, b, d))
    for n in sel_n:
        rel = sorted(relevant(n))
        chosen = set(rng.sample(rel, min(per_n, len(rel)))) | {1, n, 64}
        if n > 300:
            chosen -= {1, 2, 3}
        for b in chosen:
            for d in ds:
                pts.add((n, b, d))
    return [list(p) for p in sorted(pts)]


def run(tier: str) -> int:
    rep = C.Report("C18", tier)
    rng = random.Random(C.seed())
    rep.rule = ("exhaustive TLC enumeration of the documented layout over a box (layer-P predicates as "
                "invariants) + every observed (n_states, max_batch_size, devices) point of the real "
                "BatchProcessor judged by BatchingTrace.tla; distinct = distinct points; non-trivial = "
                "padding > 0 or more than one batch or more than one device")
    # 1. design level: the documented layout satisfies layer P on the whole box
    res = C.run_tlc("Batching", "Batching.cfg" if tier == "quick" else "BatchingThorough.cfg", coverage=True)
    C.tlc_must_be_clean(res, "Batching exhaustive")
    rep.add_tlc("Batching (exhaustive box)", res)
    if res.invariant_violated:
        rep.violation("spec:Batching-invariant", {"tlc": res.out[-3000:]})
    res2 = C.run_tlc("Batching", "BatchingSmall.cfg")
    C.tlc_must_be_clean(res2, "Batching small")
    rep.add_tlc("Batching (small box, quadratic invariants)", res2)
    if res2.invariant_violated:
        rep.violation("spec:Batching-invariant-small", {"tlc": res2.out[-3000:]})

    # 1b. optional strengthening: Apalache proves the same arithmetic for UNBOUNDED n and max_batch_size
    import subprocess
    with C.Scratch("verif-apa-") as ad:
        try:
            p = subprocess.run(["apalache-mc", "check", "--init=Init", "--inv=LayoutInv", "--length=0",
                                f"--out-dir={ad}", "MC_BatchingUnbounded.tla"], cwd=str(C.SPEC),
                               capture_output=True, text=True, timeout=600)
            out = p.stdout + p.stderr
            if "The outcome is: NoError" in out:
                rep.extra["apalache_unbounded_layout"] = "Init => LayoutInv holds for all n >= 1, max_batch_size >= 1, 1..8 devices"
            elif "The outcome is: Error" in out or "violat" in out:
                rep.violation("spec:MC_BatchingUnbounded LayoutInv (Apalache counterexample)", {"apalache": out[-3000:]})
            else:
                rep.extra["apalache_unbounded_layout"] = "inconclusive: " + out[-300:]
        except (subprocess.TimeoutExpired, FileNotFoundError) as ex:
            rep.extra["apalache_unbounded_layout"] = f"not run: {type(ex).__name__}"
    # 2. binding: real BatchProcessor observed on every point, judged by TLC
    pts = points(tier, rng)
    # a third of the points request the device count as an integer-valued numpy / jax scalar
    for k, pt in enumerate(pts):
        if k % 3 == 1 and pt[2] is not None:
            pt.append(["np64", "np32", "jnp32"][(k // 3) % 3])
    nproc = min(C.NCPU, 12)
    chunks = [pts[i::nproc] for i in range(nproc)]
    import concurrent.futures as cf
    with C.Scratch("verif-c18-") as d:
        def work(i):
            out = d / f"obs{i}.json"
            p = C.run_python(["-m", "harness.workers.batching_worker"],
                             input_json={"points": chunks[i], "out": str(out)}, cwd=str(C.VERIF))
            if p.returncode != 0:
                raise C.MachineryError("batching worker failed: " + p.stderr[-2000:])
            return json.loads(out.read_text())
        with cf.ThreadPoolExecutor(nproc) as ex:
            obs = [o for part in ex.map(work, range(nproc)) for o in part]
        # real emulated devices with pmap_device_count=None ("requested or available")
        for nd in ([1, 2, 3] if tier == "quick" else [1, 2, 3, 4, 5, 8]):
            out = d / f"obsdev{nd}.json"
            ptsd = [[n, b, None] for n in (1, 2, 7, 64, 129, 130) for b in (1, 5, 64, 1024)]
            p = C.run_python(["-m", "harness.workers.batching_worker"], n_devices=nd,
                             input_json={"points": ptsd, "out": str(out)}, cwd=str(C.VERIF))
            if p.returncode != 0:
                raise C.MachineryError("batching worker failed: " + p.stderr[-2000:])
            for o in json.loads(out.read_text()):
                o["d"] = nd  # the number of devices available is what must be reported
                obs.append(o)
    # layouts beyond 2^24 states per device, in a 64-bit process and in a process in JAX's default 32-bit mode
    # (attributes only: integers that single precision cannot hold must not pass through floating point)
    with C.Scratch("verif-c18big-") as d2:
        big = [[2 ** 24 + 1, 1024, 1], [2 ** 24 + 5, 4, 1], [2 ** 25 + 3, 2048, 2], [3 * 2 ** 24 + 7, 1024, 3], [2 ** 24 + 1, 2 ** 24 + 1, 1]]
        for mode in ("x64", "x32"):
            out = d2 / f"big_{mode}.json"
            p = C.run_python(["-m", "harness.workers.batching_worker"],
                             extra_env={"VERIF_WORKER_NO_X64": "1"} if mode == "x32" else None,
                             input_json={"points": big, "out": str(out)}, cwd=str(C.VERIF))
            if p.returncode != 0:
                raise C.MachineryError("batching worker failed: " + p.stderr[-2000:])
            obs += json.loads(out.read_text())
    for o in obs:
        o.pop("error", None)
        o.pop("shape", None)
    acc, rej, drift, results = C.judge_traces("BatchingTrace", obs, chunk=4000, what="C18")
    for r in results:
        rep.add_tlc("BatchingTrace", r)
    rep.traces = len(obs)
    for i, o in enumerate(obs):
        key = [o["n"], o["maxb"], o["d"]]
        rep.case(key, nontrivial=(o["pad"] > 0 or o["nb"] > 1 or o["nd"] > 1))
        if i in rej:
            rep.violation(f"batching n={o['n']} maxb={o['maxb']} d={o['d']}",
                          {"observation": {k: o[k] for k in ("n", "maxb", "d", "nd", "nb", "bs", "pad")},
                           "clause": rej[i], "replay": "./check C18 --tier quick"})
        if i in drift:
            rep.spec_drift(f"n={o['n']} maxb={o['maxb']} d={o['d']}: {drift[i][0]}")
    for o in obs[:: max(1, len(obs) // 5)][:5]:
        rep.sample({k: o[k] for k in ("n", "maxb", "d", "nd", "nb", "bs", "pad")})
    rep.exhaustive = True
    rep.assumptions = ["device counts are passed explicitly (pmap_device_count) for the box; "
                       "emulated host devices for the 'available' case",
                       "TLC, the JSON projection in harness/workers/batching_worker.py"]
    return rep.finish()
