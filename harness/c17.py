"""C17 - explicit matrices describe the same MDP as the functional description."""
from __future__ import annotations

import concurrent.futures as cf
import json
import random

from . import common as C
from . import gen, tabular as T


def jobs_for(tier, rng):
    jobs = []
    n = 60 if tier == "quick" else 1500
    for k in range(n):
        PD = rng.choice([2, 4, 8, 16384])
        ne = rng.choice([1, 2, 3, 4])
        m = T.random_mdp(rng, ns=rng.randint(1, 7), na=rng.randint(1, 3), ne=ne, PD=PD if ne > 1 else 1,
                         rmax=5, rexp=rng.choice([0, 0, 2]), sparse=rng.random() < 0.7,
                         plain_render=rng.random() < 0.4)
        m["render"]["prob_as_array"] = rng.random() < 0.4
        gen.fix_dups(m)
        kind = k % 4
        tol = rng.choice([[0, 1], [1, 10000], [1, 8192], [1, 4]])
        if kind == 1 and ne > 1:
            # one pair under-sums (a forgotten event), the others are exact
            s, a = rng.randrange(m["ns"]), rng.randrange(m["na"])
            e = rng.choice([x for x in range(ne) if m["pk"][s][a][x] > 0] or [0])
            m["pk"][s][a][e] -= 1 if PD > 16 and rng.random() < 0.5 else m["pk"][s][a][e]
        elif kind == 2 and ne > 1:
            # over- and under-sums in several pairs
            for _ in range(rng.randint(1, 3)):
                s, a, e = rng.randrange(m["ns"]), rng.randrange(m["na"]), rng.randrange(ne)
                m["pk"][s][a][e] = max(0, m["pk"][s][a][e] + rng.choice([-1, 1, 2]))
        elif kind == 3 and ne > 1 and PD == 16384:
            # near-one rows (1 - 2^-14 .. within 1e-4): must come back with unit row sums
            s, a = rng.randrange(m["ns"]), rng.randrange(m["na"])
            e = max(range(ne), key=lambda x: m["pk"][s][a][x])
            m["pk"][s][a][e] -= 1
        gen.fix_dups(m)
        job = {"mdp": m, "tol": tol}
        if k % 3 == 0:
            # the same instance was asked before with other tolerances (more lenient first, stricter ones too)
            job["pre_tols"] = rng.choice([[[1, 2]], [[1, 4], [0, 1]], [[1, 1]], [[0, 1], [1, 2]]])
        jobs.append(job)
    # tolerances and deviations that differ by less than 1e-12 (fine units of 2^-41 on top of coarse dyadic numbers):
    # "more than the tolerance" is a strict comparison at every scale.  Coarse parts tie (rows exact with tolerance 0,
    # or off by exactly the coarse tolerance), the fine parts decide.
    for k in range(24 if tier == "quick" else 300):
        PD = rng.choice([4, 8, 16])
        ne = rng.choice([2, 3])
        m = T.random_mdp(rng, ns=rng.randint(1, 4), na=rng.randint(1, 2), ne=ne, PD=PD, rmax=3, plain_render=rng.random() < 0.5)
        gen.fix_dups(m)
        ns, na = m["ns"], m["na"]
        fk = [[[0] * ne for _ in range(na)] for _ in range(ns)]
        s, a = rng.randrange(ns), rng.randrange(na)
        mode = k % 3
        tol = [0, 1]
        if mode > 0:
            # coarse deviation of exactly 1/PD below (mode 1) or above (mode 2) one, coarse tolerance exactly 1/PD
            tol = [1, PD]
            if mode == 1:
                e = max(range(ne), key=lambda x: m["pk"][s][a][x])
                m["pk"][s][a][e] -= 1
            else:
                m["pk"][s][a][rng.randrange(ne)] += 1
        f = rng.choice([-4, -2, -1, 0, 1, 2, 4])
        e = max(range(ne), key=lambda x: m["pk"][s][a][x])          # a positive entry can carry a negative fine part
        fk[s][a][e] = f
        if rng.random() < 0.4 and ne > 1:
            e2 = (e + 1) % ne
            fk[s][a][e2] = rng.choice([0, 1, 2])
        jobs.append({"mdp": m, "tol": tol, "fk": fk, "tf": rng.choice([0, 0, 1, 2, 3]), "K": 41})
    # thousands of events (more than 4096, not a multiple of it), rows summing to one exactly
    for k in range(1 if tier == "quick" else 3):
        ne = [5000, 4097, 9000][k]
        PD = 8192 if ne <= 8192 else 16384
        m = T.random_mdp(rng, ns=2, na=2, ne=ne, PD=2, rmax=2, sparse=False, plain_render=True)
        twos = PD - ne
        for s_ in range(2):
            for a in range(2):
                row = [2] * twos + [1] * (ne - twos)
                rng.shuffle(row)
                m["pk"][s_][a] = row
        m["PD"] = PD
        jobs.append({"mdp": m, "tol": [0, 1]})
    # a shipped problem through the same builder: Forest with a dyadic fire probability (tables = documented dynamics)
    for S, pk_, r1, r2 in ([(3, 1, 4.0, 2.0), (7, 2, 2.5, 8.0)] if tier == "quick" else
                          [(S, k, r1, r2) for S in (1, 2, 3, 5, 9, 16) for k in (0, 1, 3, 4) for r1, r2 in ((4.0, 2.0), (0.5, 16.0))]):
        PD = 4
        nxt = [[[min(s + 1, S - 1), 0], [0, 0]] for s in range(S)]
        rew = [[[(r1 if s == S - 1 else 0.0)] * 2, [(r2 if s == S - 1 else (0.0 if s == 0 else 1.0))] * 2] for s in range(S)]
        pk = [[[PD - pk_, pk_], [PD, 0]] for s in range(S)]
        m = {"ns": S, "na": 2, "ne": 2, "next": nxt, "rew": [[[int(x * 2) for x in row] for row in sa] for sa in rew],
             "pk": pk, "PD": PD, "rexp": 1, "v0": [0] * S, "v0exp": 0, "render": {}}
        jobs.append({"mdp": m, "tol": [1, 10000], "forest": {"S": S, "r1": r1, "r2": r2, "p": pk_ / PD}})
    return jobs


def run(tier):
    rep = C.Report("C17", tier)
    rng = random.Random(C.seed() + 17)
    rep.rule = ("design: TLC checks on seeded gadgets (several events into one successor, single-event problems, deficient "
                "rows) that accumulation loses nothing, that matrices and functions define the same Bellman operator for "
                "EVERY grid vector, and the error-iff-deviation rule; binding: real build_transition_and_reward_matrices on "
                "seeded table MDPs (scalar and 1-element-array probabilities, multi-dimensional renderings, exact / "
                "under-summing / over-summing / near-one rows, tolerances 0, 1e-4, 2^-13, 1/4, and tolerance/deviation pairs that differ by a few units of 2^-41) judged by MatricesTrace.tla: "
                "exact P and R, unit rows, or a ValueError naming a deviating pair. distinct = distinct (mdp, tolerance); "
                "non-trivial = more than one event or a deficient row")
    res = C.run_tlc("Matrices", "Matrices.cfg" if tier == "quick" else "MatricesThorough.cfg",
                    extra=["-seed", str(C.seed() + 3)], coverage=True)
    C.tlc_must_be_clean(res, "Matrices")
    rep.add_tlc("Matrices (same operator for all grid vectors; error rule)", res)
    if res.invariant_violated:
        rep.violation("spec:Matrices " + ",".join(res.violated), {"tlc": res.out[-3000:]})
    jobs = jobs_for(tier, rng)
    nproc = min(C.NCPU, 12)
    chunks = [jobs[i::nproc] for i in range(nproc)]
    with C.Scratch("verif-c17-") as d:
        def work(i):
            out = d / f"o{i}.json"
            p = C.run_python(["-m", "harness.workers.matrices_worker"],
                             input_json={"jobs": chunks[i], "out": str(out)}, cwd=str(C.VERIF))
            if p.returncode != 0:
                raise C.MachineryError("matrices worker failed: " + p.stderr[-2000:])
            return json.loads(out.read_text())
        with cf.ThreadPoolExecutor(nproc) as ex:
            obs = [o for part in ex.map(work, range(nproc)) for o in part]
    payload = [{k: v for k, v in o.items() if k != "msg"} for o in obs]
    acc, rej, drift, results = C.judge_traces("MatricesTrace", payload, chunk=500, what="C17")
    for r in results:
        rep.add_tlc("MatricesTrace", r)
    rep.traces = len(obs)
    for i, o in enumerate(obs):
        m = o["m"]
        rep.case({"m": m, "tol": [o["tn"], o["td"]]}, nontrivial=m["ne"] > 1)
        if i in rej:
            rep.violation(f"C17 {rej[i][0][0]} :: ns={m['ns']} na={m['na']} ne={m['ne']} PD={m['PD']} tol={o['tn']}/{o['td']} outcome={o['outcome']}",
                          {"observation": o, "clause": rej[i][0][0]})
    rep.extra.update({"builds_ok": sum(1 for o in obs if o["outcome"] == "ok"),
                      "builds_error": sum(1 for o in obs if o["outcome"] == "error")})
    for o in obs[:3]:
        rep.sample({"ns": o["m"]["ns"], "na": o["m"]["na"], "ne": o["m"]["ne"], "PD": o["m"]["PD"], "tol": [o["tn"], o["td"]],
                    "outcome": o["outcome"], "named_pair": [o["errs"], o["erra"]], "P_times_PD": o["P"][:1]})
    rep.assumptions = ["dyadic table MDPs; agreement with the functional solvers follows from both conforming to TabularMDP "
                       "(C02) and is checked as the same-operator invariant"]
    return rep.finish()
