"""C15 - shipped problems' transitions and rewards match the documented dynamics."""
from . import invlib


def run(tier):
    rep = invlib.run("C15", tier)
    return invlib.finish(rep, "design: TLC checks unit conservation, non-negative components, cyclic weekday, pipeline shift and arrival "
                         "after the lead time on the documented scalar model for every state, action and supported event of the grid; "
                         "binding: the real transition() is evaluated on EVERY (state, action, event) triple of each parameterisation "
                         "(zero-probability ones included wherever the documented model defines an outcome) and InventoryTrace.tla "
                         "requires the successor to equal the documented one and the reward to equal exactly the documented "
                         "combination of integer components with dyadic coefficients. distinct = distinct parameterisation")
