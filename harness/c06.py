"""C06 - the semi-asynchronous sweep is block Gauss-Seidel in the documented order."""
from __future__ import annotations

import random

from . import common as C
from . import gen, solverlib


def jobs_for(tier, rng):
    jobs = []
    n = 48 if tier == "quick" else 1000
    for k in range(n):
        PD = rng.choice([1, 2, 2, 4])
        m = gen.union(rng, rng.randint(2, 10), PD=PD, v0max=rng.choice([0, 3]), rmax=4,
                      plain=rng.random() < 0.3, chain=True)
        ns = m["ns"]
        # layouts with several batches and (often) padding: n_states not a multiple of the batch size
        mbs = rng.choice([1, 2, 3, 4, 5, 7, max(1, ns // 2), max(1, ns - 1), ns, 1024])
        if mbs < 2 and ns > 30:
            mbs = 3
        g = rng.choice([[1, 2], [1, 2], [1, 4], [3, 4]])
        if rng.random() < 0.25:
            gen.fix_dups(m)
            gen.add_rare(rng, m)              # a rare catastrophic event (2^-127 x 2^127), see tabular.make_problem
        job = {"mdp": m, "kind": "SAVI", "gamma": g, "eps": [1, rng.choice([2, 4, 8])],
               "test": rng.choice(["span", "max_diff"]), "calls": [rng.choice([3, 4, 6])],
               "mbs": mbs, "shuffle": k % 3 != 0, "seed": rng.randrange(10000),
               "twin": k % 3 == 1, "tag": f"savi{k}"}
        if job["shuffle"] and k % 5 == 2:
            job["shuffle_np"] = rng.choice(["np", "one"])       # shuffle_states given as numpy.True_ / as 1
        if k % 6 == 1:
            # the t-th sweep of a solver's life uses the t-th permutation of the seeded chain, however the
            # sweeps are split over solve() calls: twin solver with the same seed and ONE call
            job["calls"] = rng.choice([[1, 1, 1, 1], [2, 2], [1, 3], [3, 1]])
            job["twin_calls"] = [4]
        jobs.append(job)
    # thousands of dense states in several batches per device (judged in full)
    for k, ng in enumerate([1500] if tier == "quick" else [1500, 5000]):
        m = gen.union(rng, ng, PD=2, na=2, ne=2, rmax=3, v0max=2, plain=True, chain=True)
        jobs.append({"mdp": m, "kind": "SAVI", "gamma": [1, 2], "eps": [1, 6], "test": "span", "calls": [2],
                     "mbs": rng.choice([512, 1000]), "shuffle": k % 2 == 0, "seed": 77 + k, "tag": f"savi-dense{ng}",
                     "min_sweeps": 2})
    # more than 2^17 states, shuffled, judged in full (positions come from a verified inverse permutation, which keeps
    # the model checker's cost linear)
    for k, N in enumerate([131100] if tier == "quick" else [131100, 262200]):
        m = gen.corridors(rng, N, [3, 2])
        jobs.append({"mdp": m, "kind": "SAVI", "gamma": [1, 2], "eps": [1, 2], "test": "span", "calls": [2],
                     "mbs": rng.choice([65536, 40000]), "shuffle": True, "seed": 5 + k, "tag": f"savi-corridors{N}", "min_sweeps": 2})
    # many thousands of batches on one device (each batch reads what ALL earlier batches of the sweep wrote)
    for k, (N, mbs) in enumerate([(8300, 1)] if tier == "quick" else [(8300, 1), (17000, 2), (70000, 8)]):
        # a chain that steps DOWN across batch number 8192 (and 4096, 16384 ...): late batches read early ones
        edge = 8192 * mbs
        m = gen.descending_chain(rng, N, min(N - 1, edge + 6), edge - 7)
        jobs.append({"mdp": m, "kind": "SAVI", "gamma": [1, 2], "eps": [1, 2], "test": "span", "calls": [3],
                     "mbs": mbs, "shuffle": k % 2 == 1, "seed": 11 + k, "tag": f"savi-manybatches{N}", "min_sweeps": 2})
    # beyond the default iteration limit (2000): integer-valued undiscounted rings never leave the 32-bit range
    for k in range(1 if tier == "quick" else 3):
        m = gen.ring(rng, rng.randint(3, 5), extra=rng.randint(3, 4), v0max=1, rmax=2)
        for a in range(m["na"]):
            m["rew"][0][a] = [6]          # unequal rewards around the ring: the span of successive differences never falls
        jobs.append({"mdp": m, "kind": "SAVI", "gamma": [1, 1], "eps": [1, 12], "test": "max_diff",
                     # positive gain: the largest change never falls below epsilon (a Gauss-Seidel sweep would let the
                     # span of the changes collapse)
                     "calls": [2100] if k == 0 else [1200, 900, 50], "mbs": 2, "shuffle": True, "seed": 100 + k,
                     "tag": f"savi-long{k}", "min_sweeps": 2050})
    return jobs


def run(tier):
    rep = C.Report("C06", tier)
    rng = random.Random(C.seed() + 6)
    rep.rule = ("design: TLC explores the sweep as a schedule (every layout of a box x EVERY permutation for n=5, "
                "devices interleaving arbitrarily) with written-exactly-once, read-set, natural-order invariants; "
                "binding: real SemiAsyncValueIteration sweeps on dependency-chain unions, the permutation taken from "
                "the `perm` hook, every sweep recomputed by SolverTrace.tla for that layout and permutation (exact "
                "equality), permutation validity, fresh draws and seed reproducibility (twin solver). distinct = "
                "distinct (mdp, layout, seed); non-trivial = more than one batch")
    for cfg in ("GaussSeidel.cfg", "GaussSeidelFixed.cfg"):
        res = C.run_tlc("GaussSeidel", cfg, coverage=True)
        C.tlc_must_be_clean(res, "GaussSeidel")
        rep.add_tlc(f"GaussSeidel ({cfg})", res)
        if res.invariant_violated:
            rep.violation("spec:GaussSeidel " + ",".join(res.violated), {"tlc": res.out[-3000:]})
    jobs = jobs_for(tier, rng)
    j2, traces = solverlib.run_jobs(jobs)
    # reproducibility from random_seed ACROSS interpreter processes: the same shuffled jobs are run once more in
    # processes with another string-hash salt (PYTHONHASHSEED); the permutations drawn there become the reference
    # sequence (permref) of the first run's traces
    again = [k for k, j in enumerate(jobs) if j.get("shuffle") and not j.get("twin") and len(j["calls"]) == 1
             and j["calls"][0] < 50][: (6 if tier == "quick" else 40)]
    if again:
        _, other = solverlib.run_jobs([jobs[k] for k in again], extra_env={"PYTHONHASHSEED": "20261004"})
        first = {id(job): t for job, t in zip(j2, traces)}
        for k, t2 in zip(again, other):
            t1 = first.get(id(jobs[k]))
            if t1 is None or "ev" not in t1 or "ev" not in t2:
                continue
            sw1 = [e for e in t1["ev"] if e["e"] == "sweep"]
            sw2 = [e for e in t2["ev"] if e["e"] == "sweep"]
            for e1, e2 in zip(sw1, sw2):
                e1["permref"] = e2["perm"]
        rep.extra["shuffled_jobs_repeated_in_a_process_with_another_hash_salt"] = len(again)
    solverlib.judge(rep, j2, traces, label="C06")
    multi = sum(1 for t in traces if t.get("layout", {}).get("nb", 1) > 1)
    padded = sum(1 for t in traces if t.get("layout", {}).get("pad", 0) > 0)
    rep.extra.update({"traces_with_several_batches": multi, "traces_with_padding": padded,
                      "traces_shuffled": sum(1 for j in j2 if j.get("shuffle")),
                      "twin_seed_runs": sum(1 for j in j2 if j.get("twin"))})
    for j, t in list(zip(j2, traces))[:3]:
        if "ev" in t:
            s = solverlib.sample_of(j, t, 2)
            s["perm_of_first_sweep"] = next((e["perm"] for e in t["ev"] if e["e"] == "sweep"), None)
            rep.sample(s)
    rep.assumptions = ["single host device here (several devices: C03)", "dyadic MDP families"]
    return rep.finish()
