"""C01 - discounted solvers return near-optimal policies (and values) on convergence."""
from __future__ import annotations

import random

from . import common as C
from . import gen, solverlib
from . import tabular as T_


def jobs_for(tier, rng):
    vi, pi = [], []
    n = 30 if tier == "quick" else 480
    for k in range(n):
        # small gadgets keep the rational certificates inside 32 bits
        PD = rng.choice([1, 2, 2])
        g = rng.choice([[1, 4], [1, 2], [1, 2], [3, 4]]) if PD < 2 else rng.choice([[1, 4], [1, 2], [1, 2]])
        for kind in ("VI", "SAVI", "PI"):
            m = gen.union(rng, rng.randint(2, 6), PD=PD, na=rng.choice([2, 3]), ne=rng.choice([1, 2]),
                          rmax=rng.choice([2, 3, 5]), v0max=rng.choice([0, 2, 6]), dup=rng.random() < 0.3,
                          plain=rng.random() < 0.4, chain=rng.random() < 0.3)
            if rng.random() < 0.25:
                # both-sign rewards of equal magnitude and over/undershooting initial values
                m["rew"] = [[[rng.choice([-2, 2]) for _ in row] for row in sa] for sa in m["rew"]]
                m["v0"] = [rng.choice([-4, 0, 4]) for _ in range(m["ns"])]
                gen.fix_dups(m)
            if rng.random() < 0.2:
                gen.add_rare(rng, m)          # a rare catastrophic event (2^-127 x 2^127), see tabular.make_problem
            job = {"mdp": m, "kind": kind, "gamma": g,
                   "eps": [rng.choice([1, 1, 3, 5]), rng.choice([0, 1, 2, 3])],
                   "test": rng.choice(["span", "max_diff"]), "calls": [60], "cert": True,
                   "mbs": rng.choice([1, 2, 3, 5, 64, 1024]), "tag": f"{kind}{k}"}
            if kind == "SAVI":
                job["shuffle"] = rng.random() < 0.5
                job["seed"] = rng.randrange(1000)
            if kind == "PI":
                job["max_eval_iter"] = rng.choice([3, 20, 100])
                job["reset"] = rng.random() < 0.3
                if rng.random() < 0.4:
                    m["render"]["has_init_policy"] = True
                    m["render"]["init_policy_on_instance"] = rng.random() < 0.4
                    m["pol0"] = [rng.randrange(m["na"]) for _ in range(m["ns"])]
                pi.append(job)
            else:
                vi.append(job)
    # action spaces beyond small integer type limits (more than 256 actions)
    for k, na in enumerate([257, 300] if tier == "quick" else [257, 300, 513, 1000]):
        for kind in ("VI", "SAVI", "PI"):
            m = gen.union(rng, 2, PD=1, na=na, ne=1, rmax=9, chain=False, plain=True)
            # make high action indices attractive so that the greedy action index exceeds 255
            for s_ in range(m["ns"]):
                for a in range(na):
                    m["rew"][s_][a] = [(a * 7 + s_) % 10 + (40 if a >= 256 else 0)]
            job = {"mdp": m, "kind": kind, "gamma": [1, 2], "eps": [1, 1], "test": "span", "calls": [40], "cert": True,
                   "mbs": 1024, "tag": f"{kind}-na{na}", "min_pick": 257}
            if kind == "PI":
                job["max_eval_iter"] = 30
                pi.append(job)
            else:
                vi.append(job)
    # action spaces beyond 16-bit index limits
    for na in ([33000] if tier == "quick" else [33000, 66000]):
        # (one state and two sweeps: the model checker's cost grows with states x actions x events of the trace)
        m = T_.random_mdp(rng, ns=1, na=na, ne=1, PD=1, rmax=0, plain_render=True)
        for a in range(na):
            m["next"][0][a] = [0]
            m["rew"][0][a] = [(a * 7) % 10 + (40 if a >= na - 100 else 0)]
        vi.append({"mdp": m, "kind": "VI", "gamma": [1, 2], "eps": [1, 1], "test": "span", "calls": [2], "cert": False,
                   "mbs": 1024, "tag": f"VI-na{na}", "min_pick": 32769})
    # degenerate shapes and limits: one state / action / event, all-zero rewards, gamma = 0, iteration limit 1
    # (limit 0 is outside the properties - "positive limits" - and raises UnboundLocalError in the VI family)
    from . import tabular as T
    shapes = [(1, 1, 1), (1, 2, 1), (2, 1, 1), (1, 1, 2), (3, 1, 2), (1, 3, 3), (4, 2, 1)]
    for k, (ns, na, ne) in enumerate(shapes if tier == "quick" else shapes * 4):
        for kind in ("VI", "SAVI", "PI"):
            m = T.random_mdp(rng, ns=ns, na=na, ne=ne, PD=1 if ne == 1 else 2, rmax=rng.choice([0, 2]),
                             v0max=rng.choice([0, 3]), plain_render=rng.random() < 0.5)
            gen.fix_dups(m)
            job = {"mdp": m, "kind": kind, "gamma": rng.choice([[0, 1], [1, 2], [0, 1]]),
                   "eps": [rng.choice([1, 3]), rng.choice([0, 2])], "test": rng.choice(["span", "max_diff"]),
                   "calls": rng.choice([[1], [1, 4], [1, 1, 1], [30], [2, 30]]), "cert": True,
                   "mbs": rng.choice([1, 2, 1024]), "tag": f"{kind}-degenerate{k}"}
            if kind == "SAVI":
                job["shuffle"] = rng.random() < 0.5
                job["seed"] = rng.randrange(1000)
            if kind == "PI":
                job["max_eval_iter"] = rng.choice([1, 5])
                pi.append(job)
            else:
                vi.append(job)
    return vi, pi


def run(tier):
    rep = C.Report("C01", tier)
    rng = random.Random(C.seed() + 1)
    rep.rule = ("design: TLC runs value iteration to its stop on ALL deterministic gadgets of a box x gammas x eps x tests "
                "x initial values and checks the documented bounds against optimal values computed in closed form inside "
                "TLA+; binding: real VI / SAVI / PI runs to convergence on dyadic MDPs, every sweep judged exactly, and at "
                "convergence the loss of the returned policy (and the value error under max_diff) is compared with the "
                "documented bound using optimal-value and policy-value certificates that TLC verifies through the Bellman "
                "equations. distinct = distinct (kind, mdp, config); non-trivial = converged with a verified certificate")
    res = C.run_tlc("Solvers", "SolversVI.cfg" if tier == "quick" else "SolversVIThorough.cfg",
                    extra=["-seed", str(C.seed() + 1)], coverage=True)
    C.tlc_must_be_clean(res, "Solvers VI")
    rep.add_tlc("Solvers (VI machine, closed-form optimal values on deterministic gadgets)", res)
    if res.invariant_violated:
        rep.violation("spec:Solvers-VI " + ",".join(res.violated), {"tlc": res.out[-3000:]})
    res = C.run_tlc("PIModel", "PIModelDet.cfg", extra=["-seed", str(C.seed() + 1)], coverage=True)
    C.tlc_must_be_clean(res, "PIModel det")
    rep.add_tlc("PIModel (policy iteration, closed-form optimal values on deterministic gadgets)", res)
    if res.invariant_violated:
        rep.violation("spec:PIModel " + ",".join(res.violated), {"tlc": res.out[-3000:]})
    vi, pi = jobs_for(tier, rng)
    j2, traces = solverlib.run_jobs(vi + pi)
    a = [(j, t) for j, t in zip(j2, traces) if j["kind"] != "PI"]
    b = [(j, t) for j, t in zip(j2, traces) if j["kind"] == "PI"]
    solverlib.judge(rep, [x[0] for x in a], [x[1] for x in a], label="C01")
    solverlib.judge(rep, [x[0] for x in b], [x[1] for x in b], module="PITrace", label="C01")
    certs = sum(1 for t in traces if t.get("cert", {}).get("kind") == "discounted")
    conv = sum(1 for t in traces if any(e["e"] == "conv" for e in t.get("ev", [])))
    rep.extra.update({"converged_runs": conv, "runs_with_verified_certificate": certs,
                      "converged_without_certificate_(32-bit range)": conv - certs})
    seen = set()
    for j, t in zip(j2, traces):
        if "ev" in t and j["kind"] not in seen and t.get("cert", {}).get("kind") == "discounted":
            seen.add(j["kind"])
            s = solverlib.sample_of(j, t, 3)
            s["certificate"] = {k: t["cert"][k][:4] for k in ("vsn", "vpn", "cd")}
            rep.sample(s)
    rep.assumptions = ["dyadic MDP families (unions of 1-3 state gadgets so that rational certificates fit 32 bits); "
                       "non-dyadic gammas such as 0.9/0.99 are outside exactness and not claimed",
                       "semi-async span test: no a-priori bound is documented, only the trace itself is judged"]
    return rep.finish()
