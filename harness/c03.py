"""C03 - results are independent of batch size, device count and padding."""
from __future__ import annotations

import random

from . import common as C
from . import gen, solverlib
from .c08 import known_key as kk_c08

KF_SHARD = "multi-device layout without padding: first sweep raises a sharding error"


def known_key(job, tr, clause):
    k = kk_c08(job, tr, clause)
    if k:
        return k
    return None


def jobs_for(tier, rng, nd):
    jobs = []
    n = (25 if tier == "quick" else 80) if nd < 10 else 5
    for k in range(n):
        kind = ["VI", "PI", "RVI", "PVI", "SAVI"][k % 5]
        if kind == "RVI":
            m = gen.unichain(rng, ns=rng.randint(2, 7), v0max=rng.choice([0, 2]), plain=rng.random() < 0.5)
            g = [1, 1]
        elif kind == "PVI":
            m = gen.ring(rng, rng.randint(2, 3), extra=rng.randint(0, 4), v0max=1)
            g = [1, 1]
        else:
            m = gen.union(rng, rng.randint(2, 40), PD=rng.choice([1, 2, 2, 4]), v0max=rng.choice([0, 2]),
                          plain=rng.random() < 0.4)
            g = rng.choice([[1, 2], [1, 2], [1, 4], [3, 4]])
        ns = m["ns"]
        # multiples of the device count (no padding), primes, fewer states than devices, tiny batches
        mbs = rng.choice([1, 2, 3, 5, 7, max(1, ns - 1), ns, ns + 3, 64, 1024])
        if ns > 40 and mbs < 3:
            mbs = 5
        job = {"mdp": m, "kind": kind, "gamma": g, "eps": [1, rng.choice([1, 2, 3])],
               "test": rng.choice(["span", "max_diff"]), "calls": [rng.choice([3, 5, 12])], "mbs": mbs,
               "tag": f"{kind}{k}@{nd}dev"}
        if kind == "PVI":
            job["period"] = rng.randint(2, 3)
            job["clear"] = False
        if kind == "SAVI":
            job["shuffle"] = rng.random() < 0.5
            job["seed"] = rng.randrange(1000)
        if kind == "PI":
            job["max_eval_iter"] = rng.choice([2, 10])
            job["reset"] = rng.random() < 0.3
            if k % 2 == 0 or nd > 1:
                # a problem-supplied starting policy is computed state by state: it too must not depend on the layout
                m["render"]["has_init_policy"] = True
                m["render"]["init_policy_on_instance"] = rng.random() < 0.4
                m["pol0"] = [rng.randrange(m["na"]) for _ in range(ns)]
        jobs.append(job)
    # at scale: more than 1024 states (default max_batch_size) spread over the devices
    if nd > 1 or tier == "thorough":
        m = gen.union(rng, rng.randint(560, 640), PD=2, na=2, ne=2, rmax=3, v0max=1, plain=True)
        for kind in ("VI", "SAVI"):
            jobs.append({"mdp": m, "kind": kind, "gamma": [1, 2], "eps": [1, 3], "test": "span", "calls": [3],
                         "mbs": 1024, "shuffle": False, "seed": 1, "tag": f"{kind}-large@{nd}dev"})
    # tens of thousands of states (more than 1024 per device); the trace is reduced exactly (solver_worker.quotient)
    if nd in (2, 8) or (tier == "thorough" and nd > 1):
        N = 20100 if nd != 8 else 8 * 2600          # with 8 devices: no padding at all at this size
        for kind in (("VI",) if tier == "quick" else ("VI", "PI", "RVI")):
            jobs.append({"mdp": gen.corridors(rng, N, [3, 2]), "kind": kind, "gamma": [1, 1] if kind == "RVI" else [1, 2],
                         "eps": [1, 2], "test": "span", "calls": [5], "mbs": rng.choice([1024, 2600]), "max_eval_iter": 3,
                         "reset": False, "quotient": True, "tag": f"{kind}-corridors{N}@{nd}dev"})
    # the corner the property text names: two or more devices and no padding at all
    for kind in ("VI", "SAVI"):
        m = gen.union(rng, 3, PD=2, plain=True, chain=False)
        while m["ns"] % nd != 0:
            m = gen.union(rng, rng.randint(2, 8), PD=2, plain=True, chain=False)
        jobs.append({"mdp": m, "kind": kind, "gamma": [1, 2], "eps": [1, 2], "test": "span", "calls": [3],
                     "mbs": m["ns"] // nd if kind == "VI" else 1024, "shuffle": False, "seed": 1,
                     "tag": f"{kind}-nopad@{nd}dev"})
    return jobs


def float_layouts(rep, tier, devs):
    """Shipped (float-valued) problems: every layout must follow the 1-device / one-batch trajectory
    sweep by sweep - bitwise, or within 1e-12 ("up to floating-point rounding")."""
    import concurrent.futures as cf
    from . import ckptlib
    from .ckpt_scen import problems, solver_kw
    P = problems(None)
    combos = [("VI", "forest12"), ("PI", "de_moor"), ("RVI", "hendrix"), ("PVI", "mirjalili"), ("SAVI", "forest12")]
    if tier == "thorough":
        combos += [("VI", "de_moor"), ("PI", "forest12"), ("VI", "mirjalili"), ("SAVI", "de_moor")]
    K = 12
    with C.Scratch("verif-c03f-") as wd:
        def one(args):
            kind, pname, nd, mbs = args
            kw = solver_kw(kind, pname)
            kw.update({"max_batch_size": mbs, "checkpoint_frequency": 0})
            spec = {"problem": P[pname][0], "kind": kind, "solver_kw": kw,
                    "ops": [{"op": "new"}, {"op": "solve", "k": K}]}
            tr = wd / f"{kind}-{pname}-{nd}-{mbs}.ndjson"
            rc, err = ckptlib.run_gen(spec, tr, n_devices=nd, maxarr=100000)
            if rc != 0:
                raise C.MachineryError(f"float layout run failed ({kind},{pname},{nd},{mbs}): {err}")
            return args, ckptlib.read_events(tr)
        tasks = []
        for kind, pname in combos:
            tasks.append((kind, pname, 1, 100000))
            for nd in devs:
                for mbs in ([1, 7, 64] if tier == "quick" else [1, 3, 7, 50, 64, 1024]):
                    if kind == "SAVI" and (nd, mbs) != (1, 100000):
                        continue            # the semi-async sweep legitimately depends on the partition
                    tasks.append((kind, pname, nd, mbs))
        with cf.ThreadPoolExecutor(C.NCPU) as ex:
            done = list(ex.map(one, tasks))
    refs = {(a[0], a[1]): ckptlib.Reference(ev, rtol=1e-12) for a, ev in done if a[2] == 1 and a[3] == 100000}
    traces, descs = [], []
    for a, ev in done:
        kind, pname, nd, mbs = a
        ref = refs[(kind, pname)]
        sc = {"freq": 0, "keep": 1, "isasync": False, "fullconfig": True, "kind": kind, "dirs": {}}
        tr = ckptlib.build_trace(sc, [{"events": ev, "killed": False, "ops": []}], ref)
        tr["refconv"] = ref.conv if ref.conv is not None else -5
        traces.append(tr)
        descs.append({"kind": kind, "problem": pname, "devices": nd, "max_batch_size": mbs})
    acc, rej, drift, results = C.judge_traces("CheckpointTrace", traces, chunk=500, what="C03 float layouts")
    for r in results:
        rep.add_tlc("CheckpointTrace (shipped problems across layouts)", r)
    rep.traces += len(traces)
    for k, d in enumerate(descs):
        rep.case(d, nontrivial=d["devices"] > 1 or d["max_batch_size"] < 64)
        if k in rej:
            rep.violation(f"C03 shipped problem differs across layouts: {rej[k][0][2]} :: {d}",
                          {"layout": d, "clause": rej[k][0]})
    rep.extra["shipped_problem_layout_runs"] = len(traces)
    rep.extra["sweeps_equal_only_up_to_rounding"] = sum(r.rounded for r in refs.values())


def run(tier):
    rep = C.Report("C03", tier)
    rng = random.Random(C.seed() + 3)
    rep.rule = ("design: the layout-free specification (SolverOps) is the reference - every layout must produce exactly "
                "its sweeps, so all layouts agree with each other; Batching.tla is checked exhaustively under C18. binding: "
                "identical families of runs (VI, PI, RVI, PVI, SAVI) under 1..N emulated host devices "
                "(XLA_FLAGS=--xla_force_host_platform_device_count) x max_batch_size in {1,2,3,5,7,n-1,n,n+3,64,1024}, "
                "every sweep, measure, stop iteration, gain/history and returned policy judged by SolverTrace/PITrace; "
                "SAVI is judged as block Gauss-Seidel for ITS layout. distinct = distinct (kind, mdp, layout); non-trivial "
                "= more than one device or padding present")
    res = C.run_tlc("Batching", "BatchingSmall.cfg")
    C.tlc_must_be_clean(res, "Batching")
    rep.add_tlc("Batching (small box; the full box is C18)", res)
    devs = [1, 2, 3, 12] if tier == "quick" else [1, 2, 3, 4, 8, 12]      # 12: two-digit device ids
    allj, allt = [], []
    import concurrent.futures as cf
    with cf.ThreadPoolExecutor(len(devs)) as ex:
        futs = {nd: ex.submit(solverlib.run_jobs, jobs_for(tier, random.Random(C.seed() * 31 + nd), nd),
                              n_devices=nd, nproc=max(2, C.NCPU // len(devs))) for nd in devs}
        for nd in devs:
            j2, tr = futs[nd].result()
            allj += j2
            allt += tr
    a = [(j, t) for j, t in zip(allj, allt) if j["kind"] != "PI"]
    b = [(j, t) for j, t in zip(allj, allt) if j["kind"] == "PI"]
    solverlib.judge(rep, [x[0] for x in a], [x[1] for x in a], label="C03", known_key=known_key)
    solverlib.judge(rep, [x[0] for x in b], [x[1] for x in b], module="PITrace", label="C03", known_key=known_key)
    float_layouts(rep, tier, devs)
    lay = {}
    for t in allt:
        L = t.get("layout")
        if L:
            key = f"{L['nd']}dev"
            lay[key] = lay.get(key, 0) + 1
    rep.extra.update({"traces_per_device_count": lay,
                      "traces_with_padding": sum(1 for t in allt if t.get("layout", {}).get("pad", 0) > 0),
                      "traces_without_padding_multi_device": sum(
                          1 for t in allt if t.get("layout", {}).get("pad", 1) == 0 and t.get("layout", {}).get("nd", 1) > 1),
                      })
    for j, t in list(zip(allj, allt))[:: max(1, len(allj) // 4)][:4]:
        if "ev" in t:
            rep.sample(solverlib.sample_of(j, t, 2))
    rep.assumptions = ["emulated host devices (CPU); real multi-GPU pmap is out of reach",
                       "dyadic MDP families, so 'up to floating-point rounding' is exact equality here"]
    return rep.finish()
