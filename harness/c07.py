"""C07 - periodic value iteration: plain VI iterates with the documented period-span stop."""
from __future__ import annotations

import random

from . import common as C
from . import gen, solverlib
from .c08 import known_key


def jobs_for(tier, rng):
    jobs = []
    n = 48 if tier == "quick" else 1000
    for k in range(n):
        if k % 2 == 0:
            # undiscounted, chains periodic with period q (and transient states)
            q = rng.randint(1, 4)
            m = gen.ring(rng, q, extra=rng.randint(0, 3), v0max=rng.choice([0, 2]), rmax=3,
                         na=rng.choice([1, 2, 3]))
            p = rng.choice([q, q, 2 * q, rng.randint(2, 5)])
            p = max(2, p)
            g = [1, 1]
            eps = [1, rng.choice([0, 1, 2])]
            calls = [rng.choice([3 * (p + 1) + 2, 25])]      # wraps the circular buffer several times
            cert = True
        elif k % 4 == 1:
            # undiscounted stochastic unichain
            m = gen.unichain(rng, ns=rng.randint(2, 5), PD=2, v0max=rng.choice([0, 2]))
            p, g, eps, calls, cert = rng.randint(2, 4), [1, 1], [1, rng.choice([1, 2, 3])], [18], True
        else:
            # discounted (exponent of the discount correction): deterministic keeps numbers small
            m = gen.ring(rng, rng.randint(1, 3), extra=rng.randint(0, 2), v0max=1, rmax=2)
            p, g = rng.randint(1, 4), [1, 2]
            eps, calls, cert = [1, rng.choice([0, 2, 4])], [rng.choice([7, 9])], False
        jobs.append({"mdp": m, "kind": "PVI", "gamma": g, "eps": eps, "period": p, "clear": k % 3 == 0,
                     "gamma_as_int": k % 4 == 0, "eps_as_int": k % 6 == 0,
                     "calls": calls, "mbs": rng.choice([2, 3, 1024]), "cert": cert, "tag": f"pvi{k}"})
    # degenerate shapes: one state / action / event, all-zero rewards, period 1
    from . import tabular as T
    for k, (ns, na, ne) in enumerate([(1, 1, 1), (1, 2, 1), (1, 1, 2), (2, 1, 1), (3, 2, 1)]):
        m = T.random_mdp(rng, ns=ns, na=na, ne=ne, PD=1 if ne == 1 else 2, rmax=rng.choice([0, 2]), v0max=rng.choice([0, 3]),
                         plain_render=k % 2 == 0)
        gen.fix_dups(m)
        g = rng.choice([[1, 1], [1, 2]])
        jobs.append({"mdp": m, "kind": "PVI", "gamma": g, "eps": [1, rng.choice([0, 2])],
                     "period": rng.choice([2, 3] if g == [1, 1] else [1, 2, 3]), "clear": False,   # period 1 is rejected when undiscounted
 "calls": rng.choice([[1], [1, 1, 6], [9]]),
                     "mbs": rng.choice([1, 1024]), "cert": False, "tag": f"pvi-degenerate{k}"})
    # undiscounted runs whose iterates need more than 24 significant bits inside the exactly judged range (a ring of
    # another period keeps the measure from falling), half of them with jax_double_precision=False in this 64-bit
    # process: the history must keep the iterates as they are
    for k in range(4 if tier == "quick" else 16):
        m = gen.bits_and_ring(rng, q=3, nstoch=rng.randint(2, 4))
        jobs.append({"mdp": m, "kind": "PVI", "gamma": [1, 1], "eps": [1, 1], "period": 2, "clear": False,
                     "calls": [24], "mbs": 1024, "cert": False, "jdp": False if k % 2 == 0 else None, "tag": f"pvi-manybits{k}"})
    # several periodic solvers on equally shaped problems solving AT THE SAME TIME in threads of one process
    for g in range(2 if tier == "quick" else 10):
        shape = rng.randint(2, 3), rng.randint(0, 2)
        group = []
        for k in range(4):
            m = gen.ring(rng, shape[0], extra=shape[1], v0max=1, rmax=2)
            group.append({"mdp": m, "kind": "PVI", "gamma": [1, 2] if g % 2 == 0 else [1, 1], "eps": [1, rng.choice([2, 4, 6])],
                          "period": rng.randint(2, 3), "clear": False, "calls": [9], "mbs": 1024, "cert": False,
                          "tag": f"pvi-threads{g}.{k}", "min_sweeps": 2})
        jobs.append({"group": group, "tag": f"pvi-threads{g}"})
    # tens of thousands of states; the trace is reduced exactly (solver_worker.quotient)
    for N in ([20100] if tier == "quick" else [20100, 50021]):
        jobs.append({"mdp": gen.corridors(rng, N, [2, 3]), "kind": "PVI", "gamma": [1, 1], "eps": [1, 1], "period": 2,
                     "clear": False, "calls": [9], "mbs": 1024, "cert": False, "quotient": True, "tag": f"corridors{N}"})
    return jobs


def run(tier):
    rep = C.Report("C07", tier)
    rng = random.Random(C.seed() + 7)
    rep.rule = ("design: TLC runs the PVI machine with the code's ring buffer next to the documented measure on the list "
                "of ALL iterates (periods 1-4, several wraps, gamma 1 and 1/2) with ring=documented, infinite-before-one-"
                "period and plain-VI-iterates invariants; binding: real PeriodicValueIteration runs on periodic rings, "
                "stochastic unichain and discounted deterministic MDPs, every sweep's values, measure and stop judged "
                "exactly by SolverTrace.tla, and at undiscounted convergence (V_n - V_(n-period))/period compared with a "
                "TLC-verified optimal-gain certificate. distinct = distinct (mdp, period, gamma, eps); non-trivial = at "
                "least `period` sweeps")
    res = C.run_tlc("Solvers", "SolversPVI.cfg" if tier == "quick" else "SolversPVIThorough.cfg",
                    extra=["-seed", str(C.seed() + 1)], coverage=True)
    C.tlc_must_be_clean(res, "Solvers PVI")
    rep.add_tlc("Solvers (PVI ring buffer vs documented measure)", res)
    if res.invariant_violated:
        rep.violation("spec:Solvers-PVI " + ",".join(res.violated), {"tlc": res.out[-3000:]})
    jobs = jobs_for(tier, rng)
    j2, traces = solverlib.run_jobs(jobs)
    solverlib.judge(rep, j2, traces, label="C07", known_key=known_key)
    # discount factors that are not small dyadic rationals: which documented formula was applied?
    soft = []
    for k in range(8 if tier == "quick" else 40):
        g = rng.choice([1.0, 1.0 - 2.0 ** -17, 1.0 - 2.0 ** -20, 0.99999, 0.999, 0.9, 0.95])
        p = rng.randint(2, 4)
        m = gen.ring(rng, rng.randint(2, 4), extra=rng.randint(0, 3), v0max=2, rmax=3)
        soft.append({"soft": True, "mdp": m, "kind": "PVI", "gamma_float": g, "eps_float": 1e-9, "period": p,
                     "calls": [p + 6], "mbs": 64, "gamma": [0, 1], "eps": [0, 0], "tag": f"soft{k}"})
    sj, st = solverlib.run_jobs(soft)
    payload = [{"gammaisone": t["gammaisone"], "period": t["period"], "sweeps": t["sweeps"]} for t in st]
    sacc, srej, _, sres = C.judge_traces("BranchTrace", payload, what="C07 branch")
    for r in sres:
        rep.add_tlc("BranchTrace (non-dyadic discount factors)", r)
    rep.traces += len(payload)
    for k, t in enumerate(st):
        rep.case({"soft": t["gamma"], "period": t["period"], "tag": t["tag"]})
        if k in srej:
            rep.violation(f"C07 {srej[k][0][1]} :: gamma={t['gamma']!r} period={t['period']}",
                          {"gamma": t["gamma"], "period": t["period"], "sweeps": t["sweeps"], "clause": srej[k][0]})
    rep.extra["branch_selection_sweeps_where_the_two_formulas_differ"] = sum(
        1 for t in st for s_ in t["sweeps"] if s_["differ"])
    conv = sum(1 for t in traces if any(e["e"] == "conv" for e in t.get("ev", [])))
    rep.extra.update({"converged_runs": conv,
                      "runs_with_verified_gain_certificate": sum(1 for t in traces if t.get("cert", {}).get("kind") == "gain"),
                      "discounted_runs": sum(1 for j in j2 if j["gamma"] != [1, 1])})
    for j, t in list(zip(j2, traces))[:3]:
        if "ev" in t:
            rep.sample(solverlib.sample_of(j, t, 5))
    rep.assumptions = ["dyadic MDP families; the suite's only PVI test (117 GB) cannot run here",
                       "gain certificates only for undiscounted unichain instances"]
    return rep.finish()
