"""C04 - relative value iteration reports the optimal average reward within epsilon."""
from __future__ import annotations

import random

from . import common as C
from . import gen, solverlib

KF_ITER1 = "RVI: gain wrong when convergence is reported at iteration 1 from a non-zero initial value at the reference (last) state"


def known_key(job, tr, clause):
    if "gain / policy gain / optimality equation" in clause:
        ends = [e for e in tr["ev"] if e["e"] == "end"]
        if ends and ends[-1]["it"] == 1 and tr["v0"][-1] != 0 and tr["iter0"] == 0:
            return KF_ITER1
    return None


def jobs_for(tier, rng):
    jobs = []
    n = 48 if tier == "quick" else 1500
    for k in range(n):
        v0max = rng.choice([0, 0, 2, 5])
        m = gen.unichain(rng, ns=rng.randint(2, 6), na=rng.choice([1, 2, 3]), ne=rng.choice([2, 3]),
                         PD=rng.choice([2, 2, 4]), rmax=rng.choice([2, 3, 6]), v0max=v0max,
                         plain=rng.random() < 0.6)
        if k % 6 == 0:
            # constant rewards and constant non-zero initial values: converges at iteration 1
            r = rng.randint(1, 4)
            m["rew"] = [[[r for _ in row] for row in sa] for sa in m["rew"]]
            c = rng.choice([0, 3, 5])
            m["v0"] = [c] * m["ns"]
        if k % 6 in (1, 4):
            # fast mixing: transitions do not depend on the current state, so the span collapses
            # within two sweeps while successive iterates still differ by a constant
            for s in range(m["ns"]):
                for a in range(m["na"]):
                    m["next"][s][a] = list(m["next"][0][a if k % 6 == 4 else 0])
                    m["pk"][s][a] = list(m["pk"][0][a if k % 6 == 4 else 0])
        eps = [rng.choice([1, 1, 3]), rng.choice([0, 1, 2, 3, 4])]
        jobs.append({"mdp": m, "kind": "RVI", "gamma": [1, 1], "eps": eps, "calls": [40], "gamma_as_int": k % 3 == 0,
                     "eps_as_int": k % 5 == 0,
                     "mbs": rng.choice([1, 2, 3, 1024]), "cert": True, "tag": f"rvi{k}"})
    # degenerate shapes: one state / action / event, all-zero rewards
    from . import tabular as T
    for k, (ns, na, ne) in enumerate([(1, 1, 1), (1, 2, 1), (1, 1, 2), (1, 3, 3), (2, 1, 1), (3, 1, 2)]):
        m = T.random_mdp(rng, ns=ns, na=na, ne=ne, PD=1 if ne == 1 else 2, rmax=rng.choice([0, 2]), v0max=rng.choice([0, 3]),
                         plain_render=k % 2 == 0)
        gen.fix_dups(m)
        jobs.append({"mdp": m, "kind": "RVI", "gamma": [1, 1], "eps": [1, rng.choice([0, 2])], "calls": rng.choice([[1], [1, 1, 6], [12]]),
                     "mbs": rng.choice([1, 1024]), "cert": ns == 1, "tag": f"rvi-degenerate{k}"})
    # tens of thousands of states; the trace is reduced exactly (solver_worker.quotient)
    for N in ([20100] if tier == "quick" else [20100, 50021]):
        jobs.append({"mdp": gen.corridors(rng, N, [3, 2]), "kind": "RVI", "gamma": [1, 1], "eps": [1, 2], "calls": [5, 4],
                     "mbs": 1024, "cert": False, "quotient": True, "tag": f"corridors{N}"})
    return jobs


def run(tier):
    rep = C.Report("C04", tier)
    rng = random.Random(C.seed() + 4)
    rep.rule = ("design: TLC runs the RVI machine (as the code does it) on seeded unichain gadgets x initial values "
                "and checks the gain/optimality-equation invariants at convergence; binding: real RVI runs to "
                "convergence on seeded unichain aperiodic dyadic MDPs, every sweep judged exactly (backup up to a "
                "constant, span, stop), and at convergence |gain-g*|<eps, |gain(policy)-g*|<eps, optimality-equation "
                "residual<eps against a certificate (g*, bias) that TLC verifies through h+g=Th. distinct = distinct "
                "(mdp, eps, layout); non-trivial = converged with a verified certificate")
    res = C.run_tlc("Solvers", "SolversRVI.cfg" if tier == "quick" else "SolversRVIThorough.cfg",
                    extra=["-seed", str(C.seed() + 1)], coverage=True)
    C.tlc_must_be_clean(res, "Solvers RVI")
    rep.add_tlc("Solvers (RVI machine on unichain gadgets)", res)
    if res.invariant_violated:
        rep.violation("spec:Solvers-RVI " + ",".join(res.violated), {"tlc": res.out[-3000:]})
    jobs = jobs_for(tier, rng)
    j2, traces = solverlib.run_jobs(jobs)
    solverlib.judge(rep, j2, traces, label="C04", known_key=known_key)
    certs = sum(1 for t in traces if t.get("cert", {}).get("kind") == "gain")
    conv = sum(1 for t in traces if any(e["e"] == "conv" for e in t.get("ev", [])))
    rep.extra.update({"converged_runs": conv, "runs_with_verified_gain_certificate": certs})
    for j, t in list(zip(j2, traces))[:3]:
        if "ev" in t:
            s = solverlib.sample_of(j, t, 3)
            s["cert"] = t.get("cert", {}).get("kind")
            rep.sample(s)
    rep.assumptions = ["unichain aperiodic dyadic MDPs with 2-6 states (every action reaches a sink with positive "
                       "probability; sink has a self-loop)", "certificates proposed by exact Fraction arithmetic, "
                       "verified by TLC before use"]
    return rep.finish()
