"""Run solver jobs on the real code (parallel worker processes) and have TLC judge the traces."""
from __future__ import annotations

import concurrent.futures as cf
import json

from . import common as C


def run_jobs(jobs: list, *, n_devices: int = 1, nproc: int | None = None, timeout: int = 3000,
             late_x64: bool = False, extra_env: dict | None = None):
    """Execute jobs with harness.workers.solver_worker.

    Returns (jobs2, traces): one entry per produced trace (a job with several injected vectors
    produces several traces), jobs2[i] being the job that produced traces[i]."""
    if not jobs:
        return [], []
    nproc = max(1, min(nproc or C.NCPU, len(jobs)))
    if late_x64:
        nproc = len(jobs)          # 64-bit mode is process-global: one job per process
    order = list(range(len(jobs)))
    chunks = [order[i::nproc] for i in range(nproc)]
    out = [None] * len(jobs)
    with C.Scratch("verif-solve-") as d:
        def work(ci):
            f = d / f"tr{ci}.json"
            p = C.run_python(["-m", "harness.workers.solver_worker"], n_devices=n_devices,
                             extra_env=dict(extra_env or {}, **({"VERIF_WORKER_NO_X64": "1"} if late_x64 else {})) or None,
                             input_json={"jobs": [jobs[j] for j in chunks[ci]], "out": str(f)},
                             cwd=str(C.VERIF), timeout=timeout)
            if p.returncode != 0 or not f.exists():
                raise C.MachineryError("solver worker failed: " + p.stderr[-3000:])
            return ci, json.loads(f.read_text())
        with cf.ThreadPoolExecutor(nproc) as ex:
            for ci, trs in ex.map(work, range(nproc)):
                for j, tr in zip(chunks[ci], trs):
                    out[j] = tr
    jobs2, traces = [], []
    for job, trs in zip(jobs, out):
        if job.get("group"):
            # solvers that ran at the same time in threads of one process: one trace per member
            for member, tr in zip(job["group"], trs):
                jobs2.append(member)
                tr["inject_no"] = 0
                traces.append(tr)
            continue
        for q, tr in enumerate(trs):
            jobs2.append(job)
            tr["inject_no"] = q
            traces.append(tr)
    return jobs2, traces


STRIP = ("quotient_of", "scale_exp", "error", "inexact_at", "out_len", "tag", "startok", "inject_no")


def judge(rep: C.Report, jobs, traces, *, module="SolverTrace", prop_clauses=None,
          known_key=None, label=""):
    """TLC judges the traces; rejects become violations of rep.prop.

    prop_clauses: if given, only REJECT clauses for which prop_clauses(clause) is true count for
      this property (others are still reported - a behaviour TLC cannot explain is a violation of
      whichever property the clause belongs to, and every clause belongs to one of C01..C08; the
      filter is used only to name the right property id in checks that share traces).
    known_key(job, trace, clause) -> str | None : key for the known-findings file.
    """
    ok_idx = []
    guard_fail = {}
    for j, tr in enumerate(traces):
        job = jobs[j]
        # anti-vacuity: a job built to exercise something particular must really carry it into the model (decided
        # after judging: a trace the model REJECTS is a violation, never a machinery failure)
        if tr is not None and "crash" not in tr and "skip" not in tr and not tr.get("error"):
            n_sw = sum(1 for e in tr.get("ev", []) if e["e"] == "sweep")
            if job.get("min_sweeps") and n_sw < job["min_sweeps"]:
                guard_fail[j] = f"job {job.get('tag')} was meant to run {job['min_sweeps']} sweeps, {n_sw} reached the model"
            if job.get("min_pick"):
                top = max([p_ for e in tr.get("ev", []) for p_ in e.get("pick", [])] or [0])
                if top < job["min_pick"]:
                    guard_fail[j] = f"job {job.get('tag')} was meant to select an action index >= {job['min_pick']}, highest was {top}"
        if tr is None:
            raise C.MachineryError("missing trace")
        if "crash" in tr:
            key = known_key(job, tr, "crash: " + tr["crash"]) if known_key else None
            rep.case({"crash": tr["crash"], "job": describe(job, {})})
            rep.violation(key or f"{label} solver construction failed: {tr['crash']} :: "
                          + json.dumps(describe(job, {})), {"job": slim(job), "crash": tr["crash"]})
            continue
        if "skip" in tr:
            if tr["skip"] == "worker exception":
                raise C.MachineryError("worker exception: " + tr.get("trace", ""))
            rep.extra["skipped_out_of_range"] = rep.extra.get("skipped_out_of_range", 0) + 1
            continue
        ok_idx.append(j)
    payload = []
    for j in ok_idx:
        tr = {k: v for k, v in traces[j].items() if k not in STRIP}
        payload.append(tr)
    acc, rej, drift, results = C.judge_traces(module, payload, chunk=300, what=label)
    for r in results:
        rep.add_tlc(f"{module} {label}".strip(), r)
    rep.traces += len(payload)
    for k, j in enumerate(ok_idx):
        if j in guard_fail and k not in rej:
            raise C.MachineryError(guard_fail[j])
    n_sweeps = 0
    for k, j in enumerate(ok_idx):
        tr, job = traces[j], jobs[j]
        n_sweeps += sum(1 for e in tr["ev"] if e["e"] == "sweep")
        desc = describe(job, tr)
        rep.case(desc, nontrivial=any(e["e"] == "sweep" for e in tr["ev"]))
        if tr.get("error"):
            key = None
            if known_key:
                key = known_key(job, tr, "exception: " + tr["error"])
            rep.violation(key or f"{label} exception in solve(): {tr['error']} :: {json.dumps(desc)}",
                          {"job": slim(job), "error": tr["error"]})
        if k in rej:
            fields = rej[k][0]
            clause = fields[1] if len(fields) > 1 else str(fields)
            at = fields[0] if fields else -1
            if clause.startswith("MACHINERY"):
                raise C.MachineryError(f"{clause} in trace {desc}")
            key = known_key(job, tr, clause) if known_key else None
            rep.violation(key or f"{label} {clause} :: {json.dumps(desc)}",
                          {"job": slim(job), "clause": clause, "event_index": at,
                           "event": tr["ev"][at - 1] if 0 < at <= len(tr["ev"]) else None,
                           "trace_scale_exp": tr.get("scale_exp"),
                           "replay": "harness.workers.solver_worker with this job, then SolverTrace.tla"})
        if k in drift:
            rep.spec_drift(f"{label} {drift[k][0]} :: {json.dumps(desc)}")
    rep.extra["sweeps_validated"] = rep.extra.get("sweeps_validated", 0) + n_sweeps
    # honesty about the 32-bit range: traces judged only on a prefix, and traces that reached the model without a sweep
    cut = sum(1 for j in ok_idx if not traces[j].get("complete", True) and not traces[j].get("error"))
    empty = sum(1 for j in ok_idx if not any(e["e"] == "sweep" for e in traces[j]["ev"]))
    rep.extra["traces_judged_on_a_prefix_only"] = rep.extra.get("traces_judged_on_a_prefix_only", 0) + cut
    rep.extra["traces_without_any_sweep"] = rep.extra.get("traces_without_any_sweep", 0) + empty
    if ok_idx and empty * 4 > len(ok_idx):
        raise C.MachineryError(f"{label}: {empty} of {len(ok_idx)} traces reached the model without a single sweep")
    return acc, rej


def describe(job, tr):
    return {"kind": job["kind"], "gamma": job["gamma"], "eps": job["eps"], "test": job.get("test"),
            "calls": job["calls"], "mbs": job.get("mbs"), "ns": job["mdp"]["ns"],
            "layout": tr.get("layout"), "seed": job.get("seed"), "shuffle": job.get("shuffle"),
            "period": job.get("period"), "tag": job.get("tag"),
            "inject_no": tr.get("inject_no")}


def slim(job):
    j = dict(job)
    return j


def sample_of(job, tr, max_events=4):
    return {"job": describe(job, tr),
            "events": [{k: e[k] for k in ("e", "it", "v", "c") if k in e} for e in tr["ev"][:max_events]]}
