"""C05 - policy iteration: evaluation is accurate and termination means policy stability."""
from __future__ import annotations

import random

from . import common as C
from . import gen, solverlib


def jobs_for(tier, rng):
    jobs = []
    n = 40 if tier == "quick" else 900
    for k in range(n):
        PD = rng.choice([1, 2, 2, 4])
        m = gen.union(rng, rng.randint(3, 9), PD=PD, v0max=rng.choice([0, 2, 3]),
                      dup=rng.random() < 0.3, plain=rng.random() < 0.3, chain=rng.random() < 0.5)
        ns, na = m["ns"], m["na"]
        if k % 3 == 0:
            m["render"]["has_init_policy"] = True
            m["render"]["init_policy_on_instance"] = rng.random() < 0.4
            m["pol0"] = [rng.randrange(na) for _ in range(ns)]
        elif k % 3 == 1:
            gen.int_valued_pol0(rng, m)       # whole-number starting actions returned as integers, float action space
        elif k % 6 == 2 and not any(av == m["render"]["avecs"][0] for av in m["render"]["avecs"][1:]):
            gen.add_unlisted_actions(rng, m, k=rng.choice([1, 2]))   # the supplied policy may use actions beyond the listed ones
        g = rng.choice([[1, 4], [1, 2], [1, 2], [3, 4]])
        if rng.random() < 0.2 and "nax" not in m:
            gen.fix_dups(m)
            gen.add_rare(rng, m)              # a rare catastrophic event (2^-127 x 2^127), see tabular.make_problem
        job = {"mdp": m, "kind": "PI", "gamma": g, "eps": [rng.choice([1, 1, 3]), rng.choice([0, 1, 2, 3])],
               "test": rng.choice(["span", "max_diff"]), "reset": rng.random() < 0.4,
               "max_eval_iter": rng.choice([1, 2, 5, 50]), "mbs": rng.choice([2, 3, 7, 64, 1024]),
               "tag": f"pi{k}"}
        if k % 2 == 0:
            job["calls"] = rng.choice([[30], [1, 30], [2, 1, 30]])
            job["cert"] = True
        else:
            # evaluate ARBITRARY policies from arbitrary values: inject both, one iteration each
            job["calls"] = [1]
            job["cert"] = True
            job["injects"] = [{"v": gen.rand_values(rng, ns, vmax=4, exp=0),
                               "policy": [rng.randrange(na) for _ in range(ns)]} for _ in range(4)]
            if k % 4 == 1:
                # a very loose epsilon: the evaluation stops at its first step and hands back the values it was given -
                # the improvement step must be made all the same
                job["eps"] = [64, 0]
        jobs.append(job)
    # a passive supplied starting policy (action 0 pays nothing anywhere, initial values zero): its evaluation stops at
    # the first step with a measure of exactly 0 and returns the values it started from
    for k in range(4 if tier == "quick" else 30):
        m = gen.union(rng, rng.randint(2, 6), PD=rng.choice([1, 2]), na=2, v0max=0, plain=True, chain=False)
        for s_ in range(m["ns"]):
            m["rew"][s_][0] = [0] * m["ne"]
            m["rew"][s_][1] = [abs(r) + 1 for r in m["rew"][s_][1]]
        m["render"]["has_init_policy"] = True
        m["pol0"] = [0] * m["ns"]
        jobs.append({"mdp": m, "kind": "PI", "gamma": rng.choice([[1, 2], [1, 4]]), "eps": [1, 2], "test": rng.choice(["span", "max_diff"]),
                     "reset": False, "max_eval_iter": rng.choice([1, 5, 50]), "mbs": rng.choice([2, 1024]), "calls": [30],
                     "cert": True, "tag": f"pi-passive{k}", "min_sweeps": 2})
    # thousands of dense states (judged in full)
    for k, ng in enumerate([1500] if tier == "quick" else [1500, 5000]):
        m = gen.union(rng, ng, PD=2, na=2, ne=2, rmax=3, v0max=2, plain=True, chain=False)
        jobs.append({"mdp": m, "kind": "PI", "gamma": [1, 2], "eps": [1, 2], "test": "span", "reset": False, "max_eval_iter": 3,
                     "mbs": 1024, "calls": [3], "cert": False, "tag": f"pi-dense{ng}", "min_sweeps": 2})
    # LARGE state spaces (> 20000 states per changed state): improvement steps that change one or two states out of
    # tens of thousands must not count as stability.  The trace is reduced exactly (solver_worker.quotient).
    big = [(20100, [3])] if tier == "quick" else [(20100, [3]), (20001, [2]), (40200, [3, 2]), (65600, [2, 2, 3])]
    for N, lengths in big:
        jobs.append({"mdp": gen.corridors(rng, N, lengths), "kind": "PI", "gamma": [1, 2], "eps": [1, 2],
                     "test": rng.choice(["span", "max_diff"]), "reset": False, "max_eval_iter": rng.choice([2, 40]),
                     "mbs": rng.choice([1024, 4096]), "calls": [max(lengths) + 4], "cert": False, "quotient": True,
                     "tag": f"corridors{N}", "min_sweeps": max(lengths) + 1})
    return jobs


def run(tier):
    rep = C.Report("C05", tier)
    rng = random.Random(C.seed() + 5)
    rep.rule = ("design: TLC runs the policy-iteration machine from EVERY starting policy of seeded gadgets x tests x "
                "reset x budgets and checks evaluation-step, stability and greedy invariants; binding: real "
                "PolicyIteration runs (full runs with and without a supplied initial policy, and single iterations "
                "from injected arbitrary policies/values) judged by PITrace.tla step by step. distinct = distinct "
                "(mdp, config, injected policy); non-trivial = at least one evaluation step")
    for cfg in ("PIModel.cfg" if tier == "quick" else "PIModelThorough.cfg", "PIModelDet.cfg"):
        res = C.run_tlc("PIModel", cfg, extra=["-seed", str(C.seed() + 1)], coverage=True)
        C.tlc_must_be_clean(res, "PIModel " + cfg)
        rep.add_tlc(f"PIModel ({cfg}: all starting policies on seeded gadgets)", res)
        if res.invariant_violated:
            rep.violation("spec:PIModel " + ",".join(res.violated), {"tlc": res.out[-3000:]})
    jobs = jobs_for(tier, rng)
    j2, traces = solverlib.run_jobs(jobs)
    solverlib.judge(rep, j2, traces, module="PITrace", label="C05")
    steps = sum(len(e.get("evals", [])) for t in traces for e in t.get("ev", []))
    rep.extra.update({"evaluation_steps_validated": steps,
                      "runs_with_supplied_initial_policy": sum(1 for t in traces if t.get("haspol0")),
                      "runs_with_verified_certificate": sum(1 for t in traces if t.get("cert", {}).get("kind") == "discounted")})
    for j, t in list(zip(j2, traces))[:3]:
        if "ev" in t:
            rep.sample({"job": solverlib.describe(j, t),
                        "events": [{"e": e["e"], "it": e["it"], "eval_steps": len(e["evals"]),
                                    "nchanged": e["nchanged"]} for e in t["ev"][:5]]})
    rep.assumptions = ["dyadic MDP families; action vectors of dimension 1-2 with duplicated rows",
                       "policies injected through the documented `policy`/`values` attributes"]
    return rep.finish()
