"""Shared machinery: environment, TLC runner, verdict/evidence writer, known findings.

Exit-code contract of every check (DESIGN.md section 6):
  0 = property held on everything explored (KNOWN-FINDING lines allowed)
  1 = at least one unlisted violation, printed as `VIOLATION property=<id> replay=<path>`
  2 = machinery failure (TLC crash, harness exception) - never a violation
"""

from __future__ import annotations

import hashlib
import json
import os
import re
import shutil
import subprocess
import sys
import tempfile
import time
from pathlib import Path

VERIF = Path(__file__).resolve().parent.parent
SPEC = VERIF / "spec"
# VERIF_OUT redirects evidence and replay files (used by tools that run checks against scratch worktrees of seeded
# changes, possibly several at a time, so that they neither clash nor overwrite the evidence of the real tree)
_OUT = Path(os.environ["VERIF_OUT"]) if os.environ.get("VERIF_OUT") else VERIF
EVIDENCE = _OUT / "evidence"
REPLAYS = _OUT / "replays"
REPO = Path(os.environ.get("VERIF_REPO", "/repo"))
PY = "/venv/bin/python"
TLA_CP = "/opt/veriftools/tla/tla2tools.jar:/opt/veriftools/tla/CommunityModules-deps.jar"
NCPU = os.cpu_count() or 4


def seed() -> int:
    try:
        return int(os.environ.get("VERIF_SEED", "0"))
    except ValueError:
        return 0


def child_env(n_devices: int = 1, extra: dict | None = None) -> dict:
    """Environment for a subprocess that imports the repository under test."""
    env = dict(os.environ)
    env["MDPAX_VERIF"] = "1"
    env["JAX_PLATFORMS"] = "cpu"
    env["PYTHONHASHSEED"] = "0"
    env["PYTHONPATH"] = f"{REPO}/src:{VERIF}" + (
        ":" + env["PYTHONPATH"] if env.get("PYTHONPATH") else ""
    )
    flags = [f for f in env.get("XLA_FLAGS", "").split() if "device_count" not in f]
    flags.append(f"--xla_force_host_platform_device_count={n_devices}")
    env["XLA_FLAGS"] = " ".join(flags)
    env.setdefault("TF_CPP_MIN_LOG_LEVEL", "3")
    if extra:
        env.update(extra)
    return env


class Scratch:
    """A scratch directory outside /repo and /verif, removed on exit."""

    def __init__(self, prefix="verif-"):
        self.path = Path(tempfile.mkdtemp(prefix=prefix))

    def __enter__(self):
        return self.path

    def __exit__(self, *exc):
        shutil.rmtree(self.path, ignore_errors=True)


class MachineryError(Exception):
    pass


_TLC_STATS = re.compile(
    r"(\d+) states generated, (\d+) distinct states found, (\d+) states left on queue"
)


class TLCResult:
    def __init__(self, out: str, rc: int, wall: float):
        self.out = out
        self.rc = rc
        self.wall = wall
        m = None
        for m in _TLC_STATS.finditer(out):
            pass
        self.generated = int(m.group(1)) if m else 0
        self.distinct = int(m.group(2)) if m else 0
        self.queue = int(m.group(3)) if m else 0
        self.invariant_violated = bool(
            re.search(r"Error: Invariant (\S+) is violated", out)
        )
        self.violated = re.findall(r"Error: Invariant (\S+) is violated", out)
        self.property_violated = re.findall(
            r"Error: (?:Action|Temporal) property (\S+)", out
        ) + (["temporal"] if "Temporal properties were violated" in out else [])
        # action / temporal properties count like invariants for every caller that asks "did the model hold?"
        if self.property_violated:
            self.invariant_violated = True
            self.violated = self.violated + [p for p in self.property_violated if p not in self.violated]
        self.deadlock = "Deadlock reached" in out
        self.finished = "Model checking completed" in out or "Finished in" in out
        self.tuples = [t for t in (_parse_tla_value(x) for x in _printed_tuples(out)) if t]

    def printed(self, tag: str):
        return [t for t in self.tuples if t and t[0] == tag]

    def coverage_zero_actions(self):
        """Names of actions TLC reports with zero count (needs -coverage)."""
        zero = []
        for m in re.finditer(r"<(\w+) line [^>]*>: (\d+):(\d+)", self.out):
            if int(m.group(3)) == 0 and int(m.group(2)) == 0:
                zero.append(m.group(1))
        return sorted(set(zero))


def _printed_tuples(out: str):
    """PrintT output: `<<...>>` starting at a line start, possibly wrapped over several lines."""
    found = []
    pos = 0
    while True:
        m = re.compile(r"^<<", re.M).search(out, pos)
        if not m:
            break
        i, depth, in_str = m.start(), 0, False
        j = i
        while j < len(out):
            ch = out[j]
            if in_str:
                if ch == "\\":
                    j += 1
                elif ch == '"':
                    in_str = False
            elif ch == '"':
                in_str = True
            elif out.startswith("<<", j):
                depth += 1
                j += 1
            elif out.startswith(">>", j):
                depth -= 1
                j += 1
                if depth == 0:
                    break
            j += 1
        found.append(out[i: j + 1])
        pos = j + 1
    return found


def _parse_tla_value(text: str):
    """Parse TLC's printed tuples/strings/ints/records into Python values."""
    pos = 0

    def ws():
        nonlocal pos
        while pos < len(text) and text[pos] in " \n\t":
            pos += 1

    def val():
        nonlocal pos
        ws()
        if text.startswith("<<", pos):
            pos += 2
            items = []
            ws()
            if text.startswith(">>", pos):
                pos += 2
                return items
            while True:
                items.append(val())
                ws()
                if text.startswith(">>", pos):
                    pos += 2
                    return items
                if text[pos] != ",":
                    raise ValueError(text)
                pos += 1
        if text[pos] == '"':
            end = pos + 1
            buf = []
            while text[end] != '"':
                if text[end] == "\\":
                    end += 1
                buf.append(text[end])
                end += 1
            pos = end + 1
            return "".join(buf)
        if text[pos] == "{":
            pos += 1
            items = []
            ws()
            if text[pos] == "}":
                pos += 1
                return items
            while True:
                items.append(val())
                ws()
                if text[pos] == "}":
                    pos += 1
                    return items
                pos += 1
        if text[pos] == "[":
            pos += 1
            rec = {}
            while True:
                ws()
                m = re.match(r"(\w+) \|-> ", text[pos:])
                if not m:
                    raise ValueError(text)
                pos += m.end()
                rec[m.group(1)] = val()
                ws()
                if text[pos] == "]":
                    pos += 1
                    return rec
                pos += 1
        m = re.match(r"-?\d+|TRUE|FALSE|\w+", text[pos:])
        if not m:
            raise ValueError(text[pos : pos + 40])
        pos += m.end()
        tok = m.group(0)
        if tok == "TRUE":
            return True
        if tok == "FALSE":
            return False
        try:
            return int(tok)
        except ValueError:
            return tok

    try:
        return val()
    except Exception:
        return None


def run_tlc(
    module: str,
    cfg: str | None = None,
    *,
    workers: int | None = None,
    env: dict | None = None,
    extra: list[str] | None = None,
    timeout: int = 3600,
    deadlock: bool = False,
    depth_first: bool = False,
    cont: bool = False,
    coverage: bool = False,
    heap: str = "8g",
) -> TLCResult:
    """Run TLC on /verif/spec/<module>.tla with the given cfg (default <module>.cfg)."""
    cfg = cfg or module + ".cfg"
    meta = tempfile.mkdtemp(prefix="tlc-meta-")
    # java.io.tmpdir inside the per-run scratch directory: TLC unpacks its standard modules into a fresh tlc-* directory
    # under it at every start and never removes it
    jopts = ["-XX:+UseParallelGC", f"-Xmx{heap}", "-Xss512m", f"-Djava.io.tmpdir={meta}"]
    if depth_first:
        jopts.append("-Dtlc2.tool.queue.IStateQueue=StateDeque")
    cmd = (
        ["java"]
        + jopts
        + ["-cp", TLA_CP, "tlc2.TLC", "-metadir", meta, "-noGenerateSpecTE"]
        + ["-workers", str(workers or NCPU), "-config", cfg]
    )
    if not deadlock:
        cmd.append("-deadlock")  # -deadlock DISABLES deadlock checking
    if cont:
        cmd.append("-continue")
    if coverage:
        cmd += ["-coverage", "1"]
    cmd += extra or []
    cmd.append(module + ".tla")
    e = dict(os.environ)
    e.pop("JAVA_TOOL_OPTIONS", None)
    if env:
        e.update({k: str(v) for k, v in env.items()})
    t0 = time.time()
    try:
        p = subprocess.run(
            cmd, cwd=SPEC, env=e, capture_output=True, text=True, timeout=timeout
        )
        out, rc = p.stdout + p.stderr, p.returncode
    except subprocess.TimeoutExpired as ex:
        out = (ex.stdout or b"").decode(errors="replace") if isinstance(
            ex.stdout, bytes
        ) else (ex.stdout or "")
        out += "\nTLC TIMEOUT"
        rc = 124
    finally:
        shutil.rmtree(meta, ignore_errors=True)
    res = TLCResult(out, rc, time.time() - t0)
    return res


def tlc_must_be_clean(res: TLCResult, what: str):
    """Machinery failure unless TLC ran to completion without internal errors."""
    bad = None
    if res.rc == 124:
        bad = "timeout"
    elif "Error: " in res.out and not (
        res.invariant_violated or res.property_violated or res.deadlock
    ):
        bad = "TLC error"
    elif not res.finished:
        bad = "TLC did not finish"
    if bad:
        tail = "\n".join(res.out.splitlines()[-40:])
        raise MachineryError(f"{what}: {bad}\n{tail}")


# --------------------------------------------------------------------------
# Known findings


def load_known_findings() -> dict:
    p = VERIF / "known_findings.json"
    if not p.exists():
        return {"findings": [], "fixed": []}
    return json.loads(p.read_text())


class Report:
    """Collects what a check covered and its verdicts; writes evidence; exits."""

    def __init__(self, prop: str, tier: str, level: str = "model_checking"):
        self.prop = prop
        self.tier = tier
        self.level = level
        self.t0 = time.time()
        self.states = 0
        self.transitions = 0
        self.traces = 0
        self.evaluations = 0
        self.samples: list = []
        self.distinct: set = set()
        self.violations: list = []
        self.known_hits: dict = {}
        self.drift: list = []
        self.notes: list = []
        self.assumptions: list = []
        self.extra: dict = {}
        self.tlc_runs: list = []
        self.exhaustive = False
        self.rule = ""
        self._known = [
            f for f in load_known_findings().get("findings", []) if f["property"] == prop
        ]
        rd = REPLAYS / prop
        if rd.exists():
            shutil.rmtree(rd, ignore_errors=True)

    # -- bookkeeping -------------------------------------------------------
    def add_tlc(self, name: str, res: TLCResult, zero_ok: tuple = ()):
        self.states += res.distinct
        self.transitions += res.generated
        entry = {
            "run": name,
            "distinct_states": res.distinct,
            "states_generated": res.generated,
            "wall_s": round(res.wall, 2),
        }
        zero = [a for a in res.coverage_zero_actions() if a not in zero_ok]
        if zero:
            entry["actions_never_taken"] = zero
        self.tlc_runs.append(entry)

    def case(self, key, nontrivial: bool = True):
        """Count one evaluated case; `key` identifies it for distinctness."""
        self.evaluations += 1
        if nontrivial:
            h = hashlib.sha256(
                json.dumps(key, sort_keys=True, default=str).encode()
            ).hexdigest()[:20]
            self.distinct.add(h)

    def sample(self, obj, limit: int = 6):
        if len(self.samples) < limit:
            self.samples.append(obj)

    def violation(self, key: str, detail: dict):
        """Report a layer-P violation; downgraded when `key` is a listed known finding."""
        for f in self._known:
            if f["key"] == key:
                self.known_hits.setdefault(key, {"what": f["what_fails"], "n": 0})
                self.known_hits[key]["n"] += 1
                return
        self.violations.append((key, detail))

    def spec_drift(self, what: str):
        self.drift.append(what)

    # -- finishing ---------------------------------------------------------
    def finish(self):
        wall = time.time() - self.t0
        for key, hit in self.known_hits.items():
            print(
                f"KNOWN-FINDING: property={self.prop} {hit['what']} "
                f"[key={key}; {hit['n']} case(s) this run]"
            )
        for d in self.drift[:20]:
            print(f"SPEC-DRIFT: property={self.prop} {d}")
        replay_paths = []
        if self.violations:
            rd = REPLAYS / self.prop
            rd.mkdir(parents=True, exist_ok=True)
            for i, (key, detail) in enumerate(self.violations[:50]):
                path = rd / f"violation_{i:03d}.json"
                path.write_text(
                    json.dumps({"property": self.prop, "key": key, "detail": detail},
                               indent=1, default=str)
                )
                replay_paths.append(str(path))
                print(f"VIOLATION property={self.prop} replay={path}")
                print(f"  key={key}")
        cov = {
            "states": self.states,
            "transitions": self.transitions,
            "traces_validated_against_impl": self.traces,
            "samples": self.samples or ["(none)"],
            "evaluations": self.evaluations,
            "distinct_nontrivial": len(self.distinct),
            "rule": self.rule,
            "exhaustive": self.exhaustive,
            "tlc_runs": self.tlc_runs,
            "known_findings_hit": {k: v["n"] for k, v in self.known_hits.items()},
            "spec_drift": self.drift[:20],
            "notes": self.notes,
        }
        cov.update(self.extra)
        ev = {
            "property_id": self.prop,
            "tier": self.tier,
            "seed": seed(),
            "level": self.level,
            "coverage": cov,
            "assumptions": self.assumptions,
            "wall_s": round(wall, 2),
            "violations": len(self.violations),
        }
        EVIDENCE.mkdir(parents=True, exist_ok=True)
        (EVIDENCE / f"{self.prop}.json").write_text(json.dumps(ev, indent=1, default=str))
        print(
            f"[{self.prop}/{self.tier}] states={self.states} transitions={self.transitions} "
            f"traces={self.traces} evaluations={self.evaluations} "
            f"distinct={len(self.distinct)} violations={len(self.violations)} "
            f"known={sum(v['n'] for v in self.known_hits.values())} wall={wall:.1f}s"
        )
        return 1 if self.violations else 0


def run_python(script_args: list[str], *, n_devices: int = 1, extra_env: dict | None = None,
               timeout: int = 3600, input_json=None, cwd=None) -> subprocess.CompletedProcess:
    """Run a harness worker under the repository's interpreter with hooks enabled."""
    return subprocess.run(
        [PY] + script_args,
        env=child_env(n_devices, extra_env),
        capture_output=True,
        text=True,
        timeout=timeout,
        input=json.dumps(input_json) if input_json is not None else None,
        cwd=cwd,
    )


# --------------------------------------------------------------------------
# Trace judging: TLC reads a JSON list of traces (IOEnv.TRACE_FILE), explores one behaviour per
# trace and prints exactly one <<"ACCEPT", tid>> or <<"REJECT", tid, ...>> per trace, plus
# optional <<"DRIFT", tid, what>> lines (model drift, never a violation).


def judge_traces(module: str, traces: list, *, chunk: int = 400, workers: int | None = None,
                 cfg: str | None = None, timeout: int = 3600, what: str = "",
                 depth_first: bool = False, extra_env: dict | None = None):
    """Returns (accepted_ids, rejected {tid: [fields...]}, drift {tid: [what...]}, [TLCResult]).

    tids are 0-based indices into `traces`.
    """
    accepted, rejected, drift, results = set(), {}, {}, []
    # chunks by count AND by size: TLC parses the whole file for every behaviour it starts, so a few traces of
    # hundreds of thousands of states must not share a file with hundreds of small ones
    texts = [json.dumps(t) for t in traces]
    bounds, start, size = [], 0, 0
    for k, tx in enumerate(texts):
        if k > start and (k - start >= chunk or size + len(tx) > 12_000_000):
            bounds.append((start, k))
            start, size = k, 0
        size += len(tx)
    if traces:
        bounds.append((start, len(traces)))
    for base, end in bounds:
        part = traces[base:end]
        with Scratch("verif-trace-") as d:
            f = d / "traces.json"
            f.write_text("[" + ",".join(texts[base:end]) + "]")
            env = {"TRACE_FILE": str(f)}
            if extra_env:
                env.update(extra_env)
            res = run_tlc(module, cfg, env=env, workers=workers, timeout=timeout,
                          depth_first=depth_first)
        tlc_must_be_clean(res, f"{module} {what}")
        results.append(res)
        for t in res.printed("ACCEPT"):
            accepted.add(base + t[1] - 1)
        for t in res.printed("REJECT"):
            rejected.setdefault(base + t[1] - 1, []).append(t[2:])
        for t in res.printed("DRIFT"):
            drift.setdefault(base + t[1] - 1, []).append(t[2:])
        for k in range(len(part)):
            tid = base + k
            if tid not in accepted and tid not in rejected:
                raise MachineryError(
                    f"{module}: trace {tid} got no verdict (TLC output tail: "
                    + "\n".join(res.out.splitlines()[-15:]) + ")"
                )
            if tid in accepted and tid in rejected:
                raise MachineryError(f"{module}: trace {tid} both accepted and rejected")
    return accepted, rejected, drift, results
