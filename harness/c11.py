"""C11 - a crash at any moment leaves a restorable, untorn, correctly labelled checkpoint."""
from __future__ import annotations

import random

from . import ckptlib, common as C
from .c09 import report
from .ckpt_scen import BIG, base_scenario, problems, restore_op


def after_kill(full, extra_restore_each=False, k=BIG):
    ops = [{"op": "list", "dir": "@A"}]
    if extra_restore_each:
        ops.append({"op": "restore_each"})
    ops += [restore_op(full), {"op": "solve", "k": k}, {"op": "wait"}, {"op": "list", "dir": "@A"}]
    return ops


def scenarios(tier, rng):
    P = problems(rng)
    out = []
    combos = [("VI", "forest"), ("PVI", "forest12"), ("RVI", "tab_unichain"), ("PI", "forest"), ("VI", "tabular")]
    if tier == "thorough":
        combos += [("SAVI", "forest"), ("PI", "tabular"), ("VI", "de_moor")]
    n_hook = 5 if tier == "quick" else 40
    n_shim = 6 if tier == "quick" else 60
    n_wall = 2 if tier == "quick" else 20
    for kind, pname in combos:
        pspec, full = P[pname]
        for j in range(n_hook + n_shim + n_wall):
            freq = rng.choice([1, 2, 3])
            keep = rng.choice([1, 2])
            isasync = rng.random() < 0.6
            g1 = {"ops": [{"op": "new"}, {"op": "solve", "k": BIG}]}
            if j < n_hook:
                g1["kill_at"] = rng.randint(2, 40 if j % 2 else 75)   # n-th hook event: sweeps, save calls/returns, ...
                tag = f"hook{g1['kill_at']}"
            elif j < n_hook + n_shim:
                g1["shim_kill"] = rng.randint(2, 110)       # K-th file-system mutation under the directory
                tag = f"fs{g1['shim_kill']}"
            else:
                g1["kill_after"] = round(rng.uniform(0.0, 0.25), 3)   # seconds after the first save call is visible
                tag = f"wall{int(g1['kill_after'] * 1000)}ms"
            gens = [g1]
            r = rng.random()
            if r < 0.3:
                # crash - restore - crash - restore
                g2 = {"ops": after_kill(full), "kill_at": rng.randint(4, 30)}
                gens += [g2, {"ops": after_kill(full)}]
                tag += f"+hook{g2['kill_at']}"
            else:
                gens.append({"ops": after_kill(full, extra_restore_each=r < 0.6)})
            out.append(base_scenario(f"{kind}-{pname}-{tag}-f{freq}m{keep}{'a' if isasync else 's'}", kind, pname,
                                     pspec, full, freq, keep, isasync, gens, shim_log=True))
    # a kill while the RESTORING process is being set up (crash - restore - crash - restore): constructing the solver on
    # the directory touches it again (directory creation, configuration file, manager) before any sweep is made
    for kind, pname in ([("VI", "forest"), ("PI", "forest")] if tier == "quick" else combos):
        pspec, full = P[pname]
        if not full:
            continue
        for n in ([1, 2, 3] if tier == "quick" else [1, 2, 3, 4, 5, 6]):
            isasync = rng.random() < 0.5
            out.append(base_scenario(f"{kind}-{pname}-kill-while-restoring-fs{n}-{'a' if isasync else 's'}", kind, pname, pspec, full,
                                     1, 2, isasync,
                                     [{"ops": [{"op": "new"}, {"op": "solve", "k": 4}, {"op": "wait"}, {"op": "list", "dir": "@A"}]},
                                      {"ops": [{"op": "list", "dir": "@A"}, restore_op(full), {"op": "solve", "k": 2}, {"op": "wait"}],
                                       "shim_kill": n},
                                      {"ops": after_kill(full)}], shim_log=True))
    # the same with the process's temporary directory on ANOTHER file system than the checkpoint directory (a rename
    # across file systems is a copy: whatever is moved into the directory from there is written in place)
    other = other_fs_tmp()
    if other:
        for kind, pname in ([("VI", "forest")] if tier == "quick" else [("VI", "forest"), ("RVI", "hendrix"), ("PI", "de_moor")]):
            pspec, full = P[pname]
            for n in ([1, 2, 3] if tier == "quick" else [1, 2, 3, 4, 5, 6]):
                out.append(base_scenario(f"{kind}-{pname}-kill-while-restoring-fs{n}-tmp-on-other-fs", kind, pname, pspec, full,
                                         1, 2, False,
                                         [{"ops": [{"op": "new"}, {"op": "solve", "k": 4}, {"op": "wait"}, {"op": "list", "dir": "@A"}]},
                                          {"ops": [{"op": "list", "dir": "@A"}, restore_op(full), {"op": "solve", "k": 2}, {"op": "wait"}],
                                           "shim_kill": n},
                                          {"ops": after_kill(full)}], shim_log=True, env={"TMPDIR": other}))
    return out


_OTHER_TMP = []


def other_fs_tmp():
    """A scratch directory on a file system other than the one scenario directories live on (/dev/shm), or None."""
    import os
    import tempfile
    if _OTHER_TMP:
        return _OTHER_TMP[0]
    path = None
    try:
        if os.path.isdir("/dev/shm") and os.stat("/dev/shm").st_dev != os.stat(tempfile.gettempdir()).st_dev:
            path = tempfile.mkdtemp(prefix="verif-othertmp-", dir="/dev/shm")
            import atexit
            import shutil
            atexit.register(shutil.rmtree, path, True)
    except OSError:
        path = None
    _OTHER_TMP.append(path)
    return path


def run(tier):
    rep = C.Report("C11", tier, level="model_checking")
    rng = random.Random(C.seed() + 11)
    rep.rule = ("design: TLC explores the Checkpoint model with Crash enabled in every state - solver thread, writer "
                "decomposed into mkdir-tmp / item writes / commit-by-rename / retention deletes, all interleavings, up to "
                "three process generations - with the committed-untorn, latest-never-half-deleted, restore-sound, "
                "durability and resume-equivalence invariants, plus writer liveness under fairness; binding: fault "
                "enumeration on the real code - SIGKILL at the n-th hook event and at the K-th file-system mutation "
                "(LD_PRELOAD shim sees Python's and tensorstore's renames/mkdirs/unlinks), sync and async, double crashes; "
                "a fresh process lists the directory, restores (latest and every explicit step present), continues; the "
                "concatenated trace is judged by CheckpointTrace.tla with arrays tagged bitwise against the reference run. "
                "distinct = distinct (solver, problem, kill point, cadence)")
    for cfg in ("Checkpoint.cfg", "CheckpointCalls.cfg"):
        res = C.run_tlc("Checkpoint", cfg, coverage=True)
        C.tlc_must_be_clean(res, "Checkpoint " + cfg)
        rep.add_tlc(f"Checkpoint ({cfg})", res)
        if res.invariant_violated:
            rep.violation("spec:Checkpoint " + ",".join(res.violated), {"tlc": res.out[-3000:]})
    res = C.run_tlc("Checkpoint", "CheckpointLive.cfg")
    C.tlc_must_be_clean(res, "Checkpoint liveness")
    rep.add_tlc("Checkpoint (liveness: every accepted save is eventually finalised, fair writer, no crash)", res)
    if res.property_violated:
        rep.violation("spec:Checkpoint liveness", {"tlc": res.out[-3000:]})
    scs = scenarios(tier, rng)
    results = ckptlib.run_all(scs)
    killed = 0
    for sc, tr, gens in results:
        killed += sum(1 for g in gens if g["killed"])
    for sc, tr, at, prop, clause, desc in report(rep, results, "C11"):
        rep.violation(f"{prop} {clause} :: {desc}", {"scenario": sc, "clause": clause, "event_index": at,
                                                        "event": tr["ev"][at - 1] if 0 < at <= len(tr["ev"]) else None})
    # environment assumptions of the Checkpoint model, validated on every file-system log of a first generation
    envs = [{"ops": g[0]["fs_ops"]} for _, _, g in results if g and g[0].get("fs_ops")]
    if envs:
        eacc, erej, _, eres = C.judge_traces("OrbaxEnvTrace", envs, chunk=500, what="C11 environment")
        for r in eres:
            rep.add_tlc("OrbaxEnvTrace (file-system logs of the checkpoint library)", r)
        for k in erej:
            rep.spec_drift(f"environment assumption does not hold on a recorded file-system log: {erej[k][0][1]}")
        rep.extra["file_system_logs_validated"] = len(envs)
        rep.extra["file_system_mutations_validated"] = sum(len(e["ops"]) for e in envs)
    pm = {"tmp_left": 0, "no_final": 0, "final_present": 0}
    for sc, tr, gens in results:
        for e in tr["ev"]:
            if e["e"] == "listing" and e["postmortem"]:
                pm["tmp_left"] += bool(e["tmp"])
                pm["no_final"] += not e["fin"]
                pm["final_present"] += bool(e["fin"])
    rep.extra.update({"process_generations_killed": killed, "post_mortem_listings": pm,
                      "clean_failures_observed": sum(1 for _, t, _ in results for e in t["ev"] if e["e"] == "restore_failed")})
    for sc, tr, _ in results[:4]:
        rep.sample({"scenario": sc["name"],
                    "events": [{k: e[k] for k in ("e", "iter", "vtag", "step", "fin", "tmp", "exc") if e[k] not in (0, [], "")}
                               for e in tr["ev"] if e["e"] in ("save_call", "crash", "listing", "restore_ok", "restore_failed", "end")][:12]})
    rep.assumptions = ["kill points are those of the runs executed (hook events and file-system mutations), not wall-clock "
                       "instants inside a system call", "Orbax 0.12.4 / tensorstore as the environment; local POSIX file system"]
    rep.extra["machinery_retries"] = list(ckptlib.RETRIES)
    rep.extra["scenarios_skipped_reference_did_not_converge"] = list(ckptlib.SKIPPED)
    rep.extra["temporary_directory_on_another_file_system"] = ("/dev/shm" if _OTHER_TMP and _OTHER_TMP[0] else
                                                               "none available: those scenarios were not run")
    return rep.finish()
