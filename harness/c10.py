"""C10 - restore()/load_checkpoint() reproduce the saved solver exactly and completely."""
from __future__ import annotations

import random

from . import ckptlib, common as C
from .c09 import report
from .ckpt_scen import BIG, base_scenario, problems, restore_op


KF_POLICY = ("value-iteration-family solver: a checkpoint written during a second solve() call holds the policy of the first "
             "call, but the restored solver has policy None")


def scenarios(tier, rng):
    P = problems(rng)
    out = []
    combos = [("VI", "forest"), ("PI", "forest"), ("RVI", "hendrix"), ("PVI", "mirjalili"), ("SAVI", "forest"),
              ("VI", "de_moor"), ("VI", "tabular"), ("PI", "tabular"), ("PVI", "tab_ring"), ("RVI", "tab_unichain")]
    if tier == "thorough":
        combos += [("PI", "de_moor"), ("VI", "hendrix"), ("VI", "mirjalili"), ("SAVI", "de_moor"), ("PVI", "forest12"),
                   ("RVI", "forest"), ("SAVI", "tabular")]
    n = 2 if tier == "quick" else 6
    for kind, pname in combos:
        pspec, full = P[pname]
        for j in range(n):
            freq, keep = rng.choice([1, 2]), rng.choice([2, 3])
            isasync = rng.random() < 0.5
            k1 = rng.choice([4, 5, 6])
            g1 = {"ops": [{"op": "new"}, {"op": "solve", "k": k1}, {"op": "wait"}, {"op": "list", "dir": "@A"}]}
            ops = [{"op": "list", "dir": "@A"}]
            kw = {}
            if rng.random() < 0.6:
                kw["step"] = "EXPLICIT"
            if full:
                if rng.random() < 0.6:
                    kw["new_dir"] = "@B"
                if rng.random() < 0.5:
                    kw["freq"] = rng.choice([0, 1, 3])
                if rng.random() < 0.4:
                    kw["max"] = rng.choice([1, 2, 4])
                if rng.random() < 0.4:
                    kw["async"] = rng.random() < 0.5
                if rng.random() < 0.5:
                    kw["positional"] = True          # the documented parameter order, passed positionally
                if kind != "VI" and rng.random() < 0.5:
                    kw["via_class"] = "VI"           # ValueIteration.restore(dir) on another solver's directory
            # explicit step: one of the retained steps of a run of k1 iterations with this cadence
            if kw.get("step") == "EXPLICIT":
                due = sorted({i for i in range(1, k1 + 1) if i % freq == 0} | {k1})
                kw["step"] = rng.choice(due[-keep:])
            ops.append(restore_op(full, **kw))
            ops += [{"op": "solve", "k": rng.choice([1, 3])}, {"op": "wait"}]
            if kw.get("new_dir"):
                ops.append({"op": "list", "dir": "@B"})
            ops.append({"op": "list", "dir": "@A"})
            g2 = {"ops": ops, "check_unchanged_A": bool(kw.get("new_dir")) or kw.get("freq") == 0}
            out.append(base_scenario(f"{kind}-{pname}-{j}-f{freq}m{keep}{'a' if isasync else 's'}-" +
                                     "_".join(f"{a}{str(b).strip('@')}" for a, b in sorted(kw.items())),
                                     kind, pname, pspec, full, freq, keep, isasync, [g1, g2]))
    # a new directory together with checkpoint_frequency=0: nothing may be created there
    for kind, pname in (("VI", "forest"), ("RVI", "hendrix")):
        pspec, full = P[pname]
        out.append(base_scenario(f"{kind}-{pname}-new-dir-with-frequency-0", kind, pname, pspec, full, 1, 2, False,
                                 [{"ops": [{"op": "new"}, {"op": "solve", "k": 4}, {"op": "wait"}, {"op": "list", "dir": "@A"}]},
                                  {"ops": [{"op": "list", "dir": "@A"}, restore_op(full, new_dir="@B", freq=0), {"op": "solve", "k": 3},
                                           {"op": "wait"}, {"op": "list", "dir": "@B"}, {"op": "list", "dir": "@A"}],
                                   "check_unchanged_A": True}]))
    # all overrides at once, distinct values, passed positionally in the documented order
    for kind, pname in (("VI", "forest"), ("PI", "de_moor")):
        pspec, full = P[pname]
        out.append(base_scenario(f"{kind}-{pname}-all-overrides-positional", kind, pname, pspec, full, 2, 5, False,
                                 [{"ops": [{"op": "new"}, {"op": "solve", "k": 6}, {"op": "wait"}, {"op": "list", "dir": "@A"}]},
                                  {"ops": [{"op": "list", "dir": "@A"},
                                           restore_op(full, new_dir="@B", freq=3, max=2, positional=True, **{"async": True}),
                                           {"op": "solve", "k": 6}, {"op": "wait"}, {"op": "list", "dir": "@B"},
                                           {"op": "list", "dir": "@A"}], "check_unchanged_A": True}]))
    # restore() called through the base class on every other solver's directory (as the documentation's examples do)
    for kind, pname in (("RVI", "forest"), ("PVI", "forest12"), ("PI", "forest"), ("SAVI", "forest")):
        pspec, full = P[pname]
        out.append(base_scenario(f"{kind}-{pname}-restored-through-ValueIteration", kind, pname, pspec, full, 1, 2, False,
                                 [{"ops": [{"op": "new"}, {"op": "solve", "k": 5}, {"op": "wait"}, {"op": "list", "dir": "@A"}]},
                                  {"ops": [{"op": "list", "dir": "@A"}, restore_op(full, via_class="VI"), {"op": "solve", "k": BIG},
                                           {"op": "wait"}, {"op": "list", "dir": "@A"}]}]))
    # "latest" must be the numerically latest step (9 < 10 < 11, 99 < 100)
    for kind, pname in (("VI", "forest"), ("PVI", "forest12"), ("VI", "tabular")):
        pspec, full = P[pname]
        for k1 in (10, 11):
            out.append(base_scenario(f"{kind}-{pname}-latest-of-{k1 - 1}-{k1}", kind, pname, pspec, full, 1, 2, False,
                                     [{"ops": [{"op": "new"}, {"op": "solve", "k": k1}, {"op": "wait"}, {"op": "list", "dir": "@A"}]},
                                      {"ops": [{"op": "list", "dir": "@A"}, restore_op(full), {"op": "solve", "k": 1},
                                               {"op": "wait"}, {"op": "list", "dir": "@A"}]}]))
    # a checkpoint written during a SECOND solve() call (the solver then holds the policy of the first call)
    for kind, pname in (("VI", "forest"), ("RVI", "tab_unichain"), ("PVI", "forest12"), ("SAVI", "forest"), ("PI", "forest")):
        pspec, full = P[pname]
        out.append(base_scenario(f"{kind}-{pname}-saved-in-second-call", kind, pname, pspec, full, 1, 3, False,
                                 [{"ops": [{"op": "new"}, {"op": "solve", "k": 3}, {"op": "solve", "k": 2}, {"op": "wait"},
                                           {"op": "list", "dir": "@A"}]},
                                  {"ops": [{"op": "list", "dir": "@A"}, restore_op(full), {"op": "list", "dir": "@A"}]}]))
    # two restores from the same directory in ONE process, with new checkpoints completed in between
    for kind, pname, keep, isasync in (("VI", "forest", 3, False), ("VI", "tabular", 2, True), ("PVI", "forest12", 1, False)):
        pspec, full = P[pname]
        out.append(base_scenario(f"{kind}-{pname}-two-restores-one-process-m{keep}", kind, pname, pspec, full, 2, keep, isasync,
                                 [{"ops": [{"op": "new"}, {"op": "solve", "k": 4}, {"op": "wait"}, {"op": "list", "dir": "@A"},
                                           restore_op(full), {"op": "solve", "k": 4}, {"op": "wait"}, {"op": "list", "dir": "@A"},
                                           restore_op(full), {"op": "solve", "k": 1}, {"op": "wait"}, {"op": "list", "dir": "@A"}]}]))
    # problem instance + a configuration object whose problem field describes another problem: the saved
    # configuration must describe the problem that was actually solved
    pspec, full = P["forest"]
    other = dict(pspec, p=0.3, r1=5.0)
    for kind in ("VI", "PI"):
        out.append(base_scenario(f"{kind}-forest-instance-plus-stale-config", kind, "forest", pspec, True, 1, 2, False,
                                 [{"ops": [{"op": "new", "config_with_other_problem": other}, {"op": "solve", "k": 3}, {"op": "wait"},
                                           {"op": "list", "dir": "@A"}]},
                                  {"ops": [{"op": "list", "dir": "@A"}, restore_op(True), {"op": "solve", "k": BIG},
                                           {"op": "wait"}, {"op": "list", "dir": "@A"}]}]))
    # a restore issued while the final asynchronous save of the writer is still in flight (no wait in between)
    for kind, pname in (("VI", "forest"), ("PI", "tabular"), ("PVI", "forest12")):
        pspec, full = P[pname]
        out.append(base_scenario(f"{kind}-{pname}-restore-while-save-in-flight", kind, pname, pspec, full, 1, 3, True,
                                 [{"ops": [{"op": "new"}, {"op": "solve", "k": 5}, {"op": "list", "dir": "@A"}, restore_op(full),
                                           {"op": "wait"}, {"op": "list", "dir": "@A"}]}], fs_delay_us=150000))
    # two different configurations on ONE directory: a hand-built second solver (tighter epsilon) loads the first
    # solver's checkpoint and writes newer ones; restore() must then reproduce the SECOND configuration
    pspec, full = P["forest12"]
    for kind in ("VI", "SAVI"):
        out.append(base_scenario(f"{kind}-forest12-second-config-on-same-dir", kind, "forest12", pspec, True, 1, 2, False,
                                 [{"ops": [{"op": "new", "kw": {"epsilon": 1.0}}, {"op": "solve", "k": 2}, {"op": "wait"},
                                           {"op": "list", "dir": "@A"}]},
                                  {"ops": [{"op": "list", "dir": "@A"}, {"op": "load", "dir": "@A"}, {"op": "solve", "k": 2},
                                           {"op": "wait"}, {"op": "list", "dir": "@A"}]},
                                  {"ops": [{"op": "list", "dir": "@A"}, restore_op(True), {"op": "solve", "k": BIG},
                                           {"op": "wait"}, {"op": "list", "dir": "@A"}]}]))
    # a backup copy of the directory taken at rest while the original run carries on: restore(backup) must return what
    # the BACKUP holds (latest and explicit step), although the configuration inside names the original directory
    for kind, pname in (("VI", "forest"), ("RVI", "forest"), ("PI", "de_moor")):
        pspec, full = P[pname]
        for step in (None, 3):
            out.append(base_scenario(f"{kind}-{pname}-restore-from-backup-copy-step{step}", kind, pname, pspec, full, 1, 2, False,
                                     [{"ops": [{"op": "new"}, {"op": "solve", "k": 4}, {"op": "wait"}, {"op": "list", "dir": "@A"},
                                               {"op": "copy", "src": "@A", "dst": "@B"}, {"op": "list", "dir": "@B"},
                                               {"op": "solve", "k": 5}, {"op": "wait"}, {"op": "list", "dir": "@A"}]},
                                      {"ops": [{"op": "list", "dir": "@B"}, dict(restore_op(full, **({"step": step} if step else {})), dir="@B")]}]))
    # load_checkpoint() on a solver object that is already in use: roll back to an earlier step, then run to convergence
    # (any per-object state derived from the iteration count must follow the loaded step)
    for kind, pname in (("PVI", "forest12"), ("PVI", "tab_ring"), ("RVI", "forest"), ("PI", "tabular")):
        pspec, full = P[pname]
        out.append(base_scenario(f"{kind}-{pname}-rollback-on-the-same-object", kind, pname, pspec, full, 1, 12, False,
                                 [{"ops": [{"op": "new"}, {"op": "solve", "k": 9}, {"op": "wait"}, {"op": "list", "dir": "@A"},
                                           {"op": "load_same", "dir": "@A", "step": 1 if kind == "PI" else 4}, {"op": "solve", "k": BIG},
                                           {"op": "wait"}]}]))
    # restore with a RELATIVE new directory, then - from a process with another working directory - restore that new
    # directory and continue: later saves must go to the directory itself (rebuilt "from the directory alone")
    for kind, pname in (("VI", "forest"), ("RVI", "hendrix")):
        pspec, full = P[pname]
        out.append(base_scenario(f"{kind}-{pname}-relative-new-dir-then-other-cwd", kind, pname, pspec, full, 1, 2, False,
                                 [{"ops": [{"op": "new"}, {"op": "solve", "k": 3}, {"op": "wait"}, {"op": "list", "dir": "@A"}]},
                                  {"ops": [{"op": "list", "dir": "@A"}, restore_op(full, new_dir="@RELB"), {"op": "solve", "k": 2},
                                           {"op": "wait"}, {"op": "list", "dir": "@B"}], "cwd": "cwd1"},
                                  {"ops": [{"op": "list", "dir": "@B"}, dict(restore_op(full, expect_dir="@B"), dir="@B"),
                                           {"op": "solve", "k": 2}, {"op": "wait"}, {"op": "list", "dir": "@B"}], "cwd": "cwd2"}],
                                 rel_new_dir=True))
    # a periodic solver built with ANOTHER period loads a checkpoint (and thereby adopts the checkpoint's period),
    # continues with checkpointing on, and its checkpoints are restored later: they must describe what it really held
    for pname in ("forest12", "tab_ring"):
        pspec, full = P[pname]
        other = 3 if pname == "forest12" else 2
        out.append(base_scenario(f"PVI-{pname}-loaded-into-another-period", "PVI", pname, pspec, full, 1, 3, False,
                                 [{"ops": [{"op": "new"}, {"op": "solve", "k": 4}, {"op": "wait"}, {"op": "list", "dir": "@A"}]},
                                  {"ops": [{"op": "list", "dir": "@A"}, {"op": "load", "dir": "@A", "kw": {"period": other}},
                                           {"op": "solve", "k": 3}, {"op": "wait"}, {"op": "list", "dir": "@A"}]},
                                  {"ops": [{"op": "list", "dir": "@A"}, restore_op(full), {"op": "solve", "k": BIG},
                                           {"op": "wait"}, {"op": "list", "dir": "@A"}]}]))
    # a checkpoint the USER saved under a label of their own (save(300) at iteration 4): restoring it must give back the
    # iteration the solver held, not the label (the periodic measure with gamma < 1 depends on the absolute iteration)
    for kind, pname in (("PVI", "forest12"), ("VI", "forest"), ("RVI", "forest")):
        pspec, full = P[pname]
        out.append(base_scenario(f"{kind}-{pname}-user-labelled-save", kind, pname, pspec, full, 2, 3, False,
                                 [{"ops": [{"op": "new"}, {"op": "solve", "k": 4}, {"op": "save_as", "label": 300}, {"op": "wait"},
                                           {"op": "list", "dir": "@A"}]},
                                  {"ops": [{"op": "list", "dir": "@A"}, restore_op(full), {"op": "solve", "k": BIG},
                                           {"op": "wait"}]}]))
    # the only completed checkpoint carries the label 0 (the user saved the freshly built solver)
    for kind, pname in (("VI", "forest"), ("RVI", "forest")):
        pspec, full = P[pname]
        out.append(base_scenario(f"{kind}-{pname}-only-step-0", kind, pname, pspec, full, 5, 2, False,
                                 [{"ops": [{"op": "new"}, {"op": "save_as", "label": 0}, {"op": "wait"}, {"op": "list", "dir": "@A"}]},
                                  {"ops": [{"op": "list", "dir": "@A"}, restore_op(full), {"op": "solve", "k": 3}, {"op": "wait"},
                                           {"op": "list", "dir": "@A"}]},
                                  {"ops": [{"op": "list", "dir": "@A"}, {"op": "load", "dir": "@A", "step": 0}, {"op": "solve", "k": 2},
                                           {"op": "wait"}]}]))
    # "continue here": restore from a backup copy with new_checkpoint_dir set to that same copy (its configuration file
    # still names the original directory) - later saves must go to the copy
    for kind, pname in (("VI", "forest"), ("PI", "de_moor")):
        pspec, full = P[pname]
        out.append(base_scenario(f"{kind}-{pname}-continue-in-the-backup-copy", kind, pname, pspec, full, 1, 2, False,
                                 [{"ops": [{"op": "new"}, {"op": "solve", "k": 4}, {"op": "wait"}, {"op": "list", "dir": "@A"},
                                           {"op": "copy", "src": "@A", "dst": "@B"}, {"op": "list", "dir": "@B"}]},
                                  {"ops": [{"op": "list", "dir": "@B"}, dict(restore_op(full, new_dir="@B"), dir="@B"),
                                           {"op": "solve", "k": 3}, {"op": "wait"}, {"op": "list", "dir": "@B"},
                                           {"op": "list", "dir": "@A"}], "check_unchanged_A": True}]))
    # policy iteration on a problem whose supplied initial policy is integer-typed while the action space is float-valued
    # (half units): the stored policy - which by then contains fractional actions - must come back as it was
    pspec, full = P["tab_intpol"]
    out.append(base_scenario("PI-tab_intpol-integer-typed-initial-policy", "PI", "tab_intpol", pspec, full, 1, 3, False,
                             [{"ops": [{"op": "new"}, {"op": "solve", "k": 2}, {"op": "wait"}, {"op": "list", "dir": "@A"}]},
                              {"ops": [{"op": "list", "dir": "@A"}, restore_op(full), {"op": "solve", "k": BIG}, {"op": "wait"},
                                       {"op": "list", "dir": "@A"}]}]))
    # error paths
    pspec, full = P["tabular"]
    out.append(base_scenario("VI-tabular-restore-without-config", "VI", "tabular", pspec, False, 1, 2, False,
                             [{"ops": [{"op": "new"}, {"op": "solve", "k": 3}, {"op": "wait"}, {"op": "list", "dir": "@A"}]},
                              {"ops": [{"op": "list", "dir": "@A"}, {"op": "restore", "dir": "@A"}]}]))
    pspec, full = P["forest"]
    for kind in ("VI", "RVI"):
        out.append(base_scenario(f"{kind}-forest-restore-without-any-step", kind, "forest", pspec, True, 1, 2, True,
                                 [{"ops": [{"op": "new"}, {"op": "list", "dir": "@A"}]},
                                  {"ops": [{"op": "list", "dir": "@A"}, {"op": "restore", "dir": "@A"}]}]))
    return out


def run(tier):
    rep = C.Report("C10", tier)
    rng = random.Random(C.seed() + 10)
    rep.rule = ("design: TLC explores the Checkpoint model's Restart action (latest and explicit steps, same or new "
                "directory) with the restore-sound invariant; binding: 5 solvers x 4 shipped problems (tuple-valued "
                "Mirjalili parameters through YAML) + config-less tabular problems via load_checkpoint: a saving process, "
                "then a fresh process restoring the latest or an explicit retained step with combinations of overrides "
                "(new directory, frequency incl. 0, retention, async); CheckpointTrace.tla requires iteration, values, "
                "gain, value history/index, period and (PI) policy to carry bitwise the tag of the chosen step, the "
                "rebuilt configuration to equal the original, overrides to take effect, the original directory to stay "
                "byte-identical, and the two documented errors on the error paths. distinct = distinct scenario")
    # several directories: which one a solver saves to, which one restore() reads, backup copies, default directories
    res = C.run_tlc("CheckpointDirs", "CheckpointDirsSmall.cfg" if tier == "quick" else "CheckpointDirs.cfg", coverage=True)
    C.tlc_must_be_clean(res, "CheckpointDirs")
    rep.add_tlc("CheckpointDirs (directories as sets of committed steps: new / default / copy / restore with and without a new directory)", res)
    if res.invariant_violated:
        rep.violation("spec:CheckpointDirs " + ",".join(res.violated), {"tlc": res.out[-3000:]})
    for cfg in ("Checkpoint.cfg", "CheckpointExplicit.cfg"):
        res = C.run_tlc("Checkpoint", cfg, coverage=True)
        C.tlc_must_be_clean(res, "Checkpoint " + cfg)
        rep.add_tlc(f"Checkpoint ({cfg})", res)
        if res.invariant_violated:
            rep.violation("spec:Checkpoint " + ",".join(res.violated), {"tlc": res.out[-3000:]})
    scs = scenarios(tier, rng)
    results = ckptlib.run_all(scs)
    from .c12 import KF as KF12
    for sc, tr, at, prop, clause, desc in report(rep, results, "C10"):
        if clause.startswith("KF:"):
            continue        # the C12 finding (restore of an older step into the same directory) is C12's
        key = f"{prop} {clause} :: {desc}"
        rep.violation(key, {"scenario": sc, "clause": clause, "event_index": at,
                                                        "event": tr["ev"][at - 1] if 0 < at <= len(tr["ev"]) else None})
    # notes printed without stopping the trace: the policy field of the restored solver
    for k, notes in getattr(rep, "extra_drift", {}).items():
        sc = results[k][0]
        if any("policy field differs" in str(n) for n in notes):
            # the listed finding is the DROPPED stale policy of the value-iteration family; a restored solver holding
            # another policy than the saved one is something else
            dropped = all("another policy present" not in str(n) for n in notes if "policy field differs" in str(n))
            key = KF_POLICY if (sc["kind"] != "PI" and dropped) else f"C10 restore: the policy field differs from the one handed to save() :: {sc['name']}"
            rep.violation(key, {"scenario": sc, "clause": "restore: the policy field differs from the one handed to save() at that step"})
    for sc, tr, _ in results[:4]:
        rep.sample({"scenario": sc["name"],
                    "restores": [{k: e[k] for k in ("e", "req", "iter", "vtag", "gtag", "htag", "ptag", "cfgeq", "nfreq", "nkeep", "ndir", "exc")}
                                 for e in tr["ev"] if e["e"].startswith("restore")]})
    rep.assumptions = ["bitwise reproducibility across processes on this platform", "small parameterisations of the shipped problems"]
    rep.extra["machinery_retries"] = list(ckptlib.RETRIES)
    rep.extra["scenarios_skipped_reference_did_not_converge"] = list(ckptlib.SKIPPED)
    return rep.finish()
