"""Checkpoint scenarios on the real code: run process generations, tag arrays against the
uninterrupted reference run, build integer traces for CheckpointTrace.tla."""
from __future__ import annotations

import concurrent.futures as cf
import hashlib
import json
import os
import re
import shutil
import subprocess
from pathlib import Path

from . import common as C

SHIM = C.VERIF / "harness" / "fi_shim.so"
RETRIES: list = []
SKIPPED: list = []


def run_gen(spec: dict, trace_path: Path, *, kill_at: int | None = None, shim_kill: int | None = None,
            shim_log: Path | None = None, watch: str | None = None, timeout: int = 900,
            n_devices: int = 1, maxarr: int = 0, kill_after: float | None = None, fs_delay_us: int = 0,
            cwd: str | None = None, no_x64: bool = False, env_extra: dict | None = None):
    """One OS process generation.  Returns (returncode, stderr tail)."""
    spec_path = trace_path.with_suffix(".spec.json")
    spec_path.write_text(json.dumps(spec))
    extra = {"MDPAX_VERIF_TRACE": str(trace_path), "MDPAX_VERIF_MAXARR": str(maxarr)}
    if env_extra:
        extra.update(env_extra)
    if no_x64:
        extra["VERIF_DRIVER_NO_X64"] = "1"
    if kill_at is not None:
        extra["MDPAX_VERIF_KILL_AT"] = str(kill_at)
    if fs_delay_us:
        extra["FI_DELAY_US"] = str(fs_delay_us)
    if shim_kill is not None or shim_log is not None or fs_delay_us:
        extra["LD_PRELOAD"] = str(SHIM)
        extra["FI_WATCH"] = watch or ""
        extra["FI_LOG"] = str(shim_log) if shim_log else ""
        extra["FI_KILL_AT"] = str(shim_kill if shim_kill is not None else 0)
        extra.setdefault("FI_WATCH", watch or "")
    cmd = [C.PY, "-m", "harness.workers.ckpt_driver", str(spec_path)]
    if kill_after is not None:
        # wall-clock kill: SIGKILL once the first checkpoint activity is visible plus a seeded delay
        import signal
        import time
        proc = subprocess.Popen(cmd, env=C.child_env(n_devices, extra), stdout=subprocess.DEVNULL,
                                stderr=subprocess.PIPE, text=True, cwd=cwd or str(C.VERIF))
        t0 = time.time()
        while proc.poll() is None and time.time() - t0 < timeout:
            started = trace_path.exists() and b"save_call" in trace_path.read_bytes()
            if started:
                time.sleep(kill_after)
                if proc.poll() is None:
                    proc.send_signal(signal.SIGKILL)
                break
            time.sleep(0.02)
        try:
            _, err = proc.communicate(timeout=timeout)
        except subprocess.TimeoutExpired:
            proc.kill()
            _, err = proc.communicate()
        return proc.returncode, (err or "")[-1500:]
    p = subprocess.run(cmd, env=C.child_env(n_devices, extra), capture_output=True, text=True,
                       timeout=timeout, cwd=cwd or str(C.VERIF))
    return p.returncode, p.stderr[-1500:]


def parse_shim(path: Path, root: str):
    """Project the shim log to the events of OrbaxEnvTrace.tla."""
    out = []
    for line in path.read_text().splitlines():
        parts = line.split(" ")
        if len(parts) < 4:
            continue
        op, a, b = parts[1], parts[2], parts[3]

        def classify(pth):
            if not pth.startswith(root):
                return ("root", 0, False)
            rel = pth[len(root):].strip("/")
            if not rel:
                return ("root", 0, True)
            first = rel.split("/")[0]
            top = "/" not in rel
            m = re.match(r"^(\d+)\.orbax-checkpoint-tmp", first)
            if m:
                return ("tmp", int(m.group(1)), top)
            if first.isdigit():
                return ("final", int(first), top)
            return ("root", 0, top)
        ka, sa, topa = classify(a)
        if op == "rename" and b != "-":
            kb, sb, topb = classify(b)
            if ka == "tmp" and topa and kb == "final" and topb and sa == sb:
                out.append({"k": "commit", "step": sa, "op": op})
                continue
        if ka == "tmp":
            out.append({"k": "mkdir_tmp" if (op == "mkdir" and topa) else "tmp_op", "step": sa, "op": op})
        elif ka == "final":
            out.append({"k": "final_op", "step": sa, "op": op})
        else:
            out.append({"k": "other", "step": 0, "op": op})
    return out


class DirMap(dict):
    """Directory -> 1 (original) / 2 (new), insensitive to trailing slashes and the like."""

    def __init__(self, d):
        super().__init__({os.path.normpath(k): v for k, v in d.items()})

    def get(self, key, default=None):
        if not key:
            return default
        return super().get(os.path.normpath(str(key)), default)

    def slot(self, key):
        """Number a directory the scenario did not name (default directories): in order of first appearance."""
        k = os.path.normpath(str(key))
        if k not in self:
            self[k] = min(2, len(self) + 1)
        return self[k]


def read_events(path: Path):
    if not path.exists():
        return []
    out = []
    for line in path.read_text().splitlines():
        try:
            out.append(json.loads(line))
        except json.JSONDecodeError:
            break  # a line cut by SIGKILL
    return out


def sha_of(enc):
    """Digest of an encoded field: arrays -> sha, floats -> hex, None -> None."""
    if enc is None:
        return None
    if isinstance(enc, dict):
        if "sha" in enc:
            return enc["sha"] + ":" + enc.get("dtype", "")
        if "f" in enc:
            return "f:" + enc["f"]
    return "r:" + json.dumps(enc, sort_keys=True)


def scalar_sha(enc):
    """Scalars may be python floats or 0-d arrays; compare by value bytes."""
    if enc is None:
        return None
    if isinstance(enc, dict) and "f" in enc:
        import struct
        return hashlib.sha256(struct.pack("<d", float.fromhex(enc["f"]))).hexdigest()[:16]
    if isinstance(enc, dict) and "sha" in enc:
        return enc["sha"]
    return str(enc)


def array_of(enc):
    """Decode an encoded float array that was logged in full (hex list); None otherwise."""
    if isinstance(enc, dict) and "hex" in enc:
        import numpy as np
        return np.array([float.fromhex(x) for x in enc["hex"]], dtype=np.float64)
    return None


class Reference:
    """Per-iteration digests of the uninterrupted run (no checkpointing)."""

    def __init__(self, events, rtol: float = 0.0):
        self.values, self.gain, self.hist, self.policy, self.hidx = {}, {}, {}, {}, {}
        self.arrays = {}
        self.harrays = {}
        self.rtol = rtol
        self.rounded = 0
        self.conv = None
        self.final_policy = {}
        for ev in events:
            st = ev.get("state")
            if not st:
                continue
            n = st.get("iteration")
            if ev["event"] in ("x_new", "sweep"):
                self.values.setdefault(n, sha_of(st.get("values")))
                arr = array_of(st.get("values"))
                if arr is not None:
                    self.arrays.setdefault(n, arr)
                if "gain" in st:
                    self.gain.setdefault(n, scalar_sha(st.get("gain")))
                if "value_history" in st:
                    self.hist.setdefault(n, sha_of(st.get("value_history")))
                    self.hidx.setdefault(n, st.get("history_index"))
                    harr = array_of(st.get("value_history"))
                    if harr is not None:
                        self.harrays.setdefault(n, harr)
                if ev["event"] == "sweep" and st.get("policy") is not None:
                    self.policy[n] = sha_of(st.get("policy"))
            if ev["event"] == "converged" and self.conv is None:
                self.conv = n
            if ev["event"] == "solve_end":
                self.final_policy[n] = sha_of(st.get("policy"))
                self.policy.setdefault(n, sha_of(st.get("policy")))

    def tag(self, table, digest):
        if digest is None:
            return -2
        for n, d in table.items():
            if d == digest:
                return n
        return -1

    def tags(self, st):
        """(vtag, gtag, htag, ptag, hidxok) of an encoded solver state."""
        n = st.get("iteration")
        v = self.tag(self.values, sha_of(st.get("values")))
        # several iterations may share one digest (stationary values): prefer the labelled one
        if self.values.get(n) == sha_of(st.get("values")):
            v = n
        elif v == -1 and self.rtol > 0 and n in self.arrays:
            # "up to floating-point rounding": same shape and within rtol of the reference iterate
            import numpy as np
            arr = array_of(st.get("values"))
            if arr is not None and arr.shape == self.arrays[n].shape and np.allclose(
                    arr, self.arrays[n], rtol=self.rtol, atol=self.rtol):
                v = n
                self.rounded += 1
        g = -3
        if "gain" in st:
            g = n if self.gain.get(n) == scalar_sha(st.get("gain")) else self.tag(self.gain, scalar_sha(st.get("gain")))
        h, hok = -3, True
        if "value_history" in st:
            d = sha_of(st.get("value_history"))
            h = n if self.hist.get(n) == d else self.tag(self.hist, d)
            if h == -1 and self.rtol > 0 and n in self.harrays:
                import numpy as np
                harr = array_of(st.get("value_history"))
                if harr is not None and harr.shape == self.harrays[n].shape and np.allclose(
                        harr, self.harrays[n], rtol=self.rtol, atol=self.rtol):
                    h = n
            hok = self.hidx.get(n) == st.get("history_index") if n in self.hidx else True
        pol = sha_of(st.get("policy"))
        p = n if (pol is not None and self.policy.get(n) == pol) else self.tag(self.policy, pol)
        return v, g, h, p, hok


def norm_config(text: str):
    """Configuration text without the four fields restore() may override."""
    keep = []
    for line in (text or "").splitlines():
        if re.match(r"^(checkpoint_dir|checkpoint_frequency|max_checkpoints|enable_async_checkpointing):", line):
            continue
        keep.append(line)
    return "\n".join(keep)


def tree_digest(d):
    h = hashlib.sha256()
    if not d or not os.path.isdir(d):
        return "absent"
    for root, dirs, files in sorted(os.walk(d)):
        dirs.sort()
        for f in sorted(files):
            p = os.path.join(root, f)
            h.update(os.path.relpath(p, d).encode())
            try:
                h.update(open(p, "rb").read())
            except OSError:
                h.update(b"<unreadable>")
    return h.hexdigest()[:16]


BLANK = {"e": "", "inflight": False, "convknown": True, "pdig": "none", "iter": 0, "itag": 0, "vtag": -3, "gtag": -3, "htag": -3, "ptag": -3, "step": 0, "k": 0,
         "conv": False, "atend": False, "final": False, "dir": 1, "fin": [], "tmp": [], "cfg": False,
         "exists": False, "quiescent": False, "postmortem": False, "unchanged": True, "killed": False,
         "req": -1, "route": "", "cfgeq": True, "hidxok": True, "dtypeok": True, "exc": "", "src": 1,
         "nfreq": 0, "nkeep": 0, "nasync": False, "ndir": 1,
         "wantfreq": 0, "wantkeep": 0, "wantasync": False, "wantdir": 1}


def build_trace(sc: dict, gens: list, ref: Reference):
    """gens: list of dicts {events, killed, ops, dirs}; returns the TLC trace."""
    evs = []
    orig_cfg = None
    dirs = sc["dirs"]          # {path: 1|2}
    # a process that simply exits while an asynchronous save is still in flight (no wait_until_finished) ends
    # the writer as abruptly as a kill does
    for g in gens:
        names = [e["event"] for e in g["events"]]
        g["unclean"] = (not g["killed"]) and "save_call" in names and "x_waited" not in names
    hadcrash = any(g["killed"] or g["unclean"] for g in gens)
    resumed_converged = False
    for gi, g in enumerate(gens):
        events = g["events"]
        sweeps_in_call, k_call, conv_in_call = 0, 0, False
        first_listing = True
        waited = False
        pending = False      # an asynchronous save may still be in flight in THIS process
        user_save = False    # between the driver's markers: save(label) called by the user, not by solve()
        op_restore = next((o for o in g["ops"] if o["op"] in ("restore", "load", "load_same")), None)
        for idx, ev in enumerate(events):
            st = ev.get("state") or {}
            name = ev["event"]
            rec = dict(BLANK)
            if st:
                v, gt, h, p, hok = ref.tags(st)
                rec.update({"iter": st.get("iteration", 0), "itag": st.get("iteration", 0),
                            "vtag": v, "gtag": gt, "htag": h, "ptag": p, "hidxok": hok,
                            "pdig": sha_of(st.get("policy")) or "none"})
            if name == "x_new":
                rec["e"] = "new"
                orig_cfg = norm_config(ev.get("config"))
                if ev.get("ckpt_dir"):
                    rec["dir"] = dirs.slot(ev["ckpt_dir"]) if sc.get("default_dir") else dirs.get(ev["ckpt_dir"], 1)
            elif name == "solve_begin":
                rec["e"], rec["k"] = "begin", ev["max_iterations"]
                sweeps_in_call, k_call, conv_in_call = 0, ev["max_iterations"], False
            elif name == "sweep":
                rec["e"] = "sweep"
                sweeps_in_call += 1
                nxt = events[idx + 1]["event"] if idx + 1 < len(events) else ""
                rec["conv"] = nxt == "converged"
                # a process killed right at this event never got to report convergence
                rec["convknown"] = not (g["killed"] and idx + 1 >= len(events))
                conv_in_call = conv_in_call or rec["conv"]
            elif name == "converged":
                continue
            elif name == "x_user_save_begin":
                user_save = True
                continue
            elif name == "x_user_save_end":
                user_save = False
                continue
            elif name == "save_call" and user_save:
                pending = bool(sc["isasync"])
                rec["e"], rec["step"] = "user_save", ev["step"]
            elif name == "save_call":
                pending = bool(sc["isasync"])
                rec["e"], rec["step"] = "save_call", ev["step"]
                rec["atend"] = conv_in_call or sweeps_in_call >= k_call
                # a periodic save that coincides with the end of the call is followed by the final save
                if rec["atend"] and not conv_in_call:
                    prior = [e for e in events[:idx] if e["event"] in ("save_call", "sweep")]
                    if prior and prior[-1]["event"] == "sweep":
                        rec["atend"] = True
            elif name == "save_return":
                rec["e"], rec["step"] = "save_return", ev["step"]
            elif name == "solve_end":
                rec["e"] = "end"
                rec["final"] = conv_in_call
            elif name == "x_waited":
                rec["e"] = "waited"
                waited = True
                pending = False
            elif name == "x_listing":
                rec["e"] = "listing"
                rec["dir"] = dirs.get(ev["dir"], 1)
                rec.update({"fin": ev["final"], "tmp": ev["tmp"], "cfg": ev["config"], "exists": ev["exists"]})
                rec["postmortem"] = first_listing and gi > 0
                rec["quiescent"] = waited and not g["killed"]
                first_listing = False
                if "unchanged" in ev:
                    rec["unchanged"] = ev["unchanged"]
            elif name == "x_copy":
                rec["e"] = "copy"
                rec["src"], rec["dir"] = dirs.get(ev["src"], 1), dirs.get(ev["dst"], 2)
            elif name == "x_restore_ok":
                rec["e"] = "restore_ok"
                rec["inflight"] = pending
                rec["req"] = ev["req"] if ev.get("req") is not None else -1
                rec["route"] = "restore" if ev.get("config") else "load"
                rec["cfgeq"] = (norm_config(ev.get("config")) == orig_cfg) if ev.get("config") else True
                rec["dtypeok"] = ev.get("dtype") == "float64"
                o = op_restore or {}
                # a directory the scenario does not know is "3" when the scenario says where saves must go
                rec["ndir"] = dirs.get(ev.get("ckpt_dir"), 3 if o.get("expect_dir") else 1)
                rec["nfreq"], rec["nkeep"], rec["nasync"] = ev["freq"], ev["maxkeep"], ev["is_async"]
                rec["src"] = dirs.get(o.get("dir"), 1)
                if rec["route"] == "restore":
                    rec["wantfreq"] = o["freq"] if o.get("freq") is not None else sc["freq"]
                    rec["wantkeep"] = o["max"] if o.get("max") is not None else sc["keep"]
                    rec["wantasync"] = o["async"] if o.get("async") is not None else sc["isasync"]
                    rec["wantdir"] = dirs.get(o.get("new_dir"), 1) if o.get("new_dir") else 1
                    if o.get("new_dir") == "relB":
                        rec["wantdir"] = 2
                    if o.get("expect_dir"):
                        rec["wantdir"] = dirs.get(o["expect_dir"], 1)
                    if rec["nfreq"] == 0 and rec["wantfreq"] == 0:
                        rec["wantdir"] = rec["ndir"]      # checkpointing disabled: no directory is set up
                else:
                    rec["wantfreq"], rec["wantkeep"], rec["wantasync"], rec["wantdir"] = (
                        rec["nfreq"], rec["nkeep"], rec["nasync"], rec["ndir"])
                if ref.conv is not None and rec["iter"] >= ref.conv:
                    resumed_converged = True
            elif name == "x_restore_failed":
                rec["e"] = "restore_failed"
                rec["exc"], rec["req"] = ev["exc"], (ev["req"] if ev.get("req") is not None else -1)
                o = op_restore or {}
                rec["route"] = "restore" if o.get("op") == "restore" else "load"
                rec["src"] = dirs.get(o.get("dir"), 1)
            elif name == "x_solve_failed":
                rec["e"] = "solve_failed"
                rec["exc"] = ev["exc"]
            else:
                continue
            evs.append(rec)
        if gi < len(gens) - 1 or g["killed"]:
            rec = dict(BLANK)
            rec["e"], rec["killed"] = "crash", bool(g["killed"] or g.get("unclean"))
            evs.append(rec)
    # does the scenario use its second directory only as the new directory of restores that switch checkpointing off?
    allops = [o for g in sc.get("gens", []) for o in g["ops"]]
    newdir_ops = [o for o in allops if o.get("new_dir")]
    bunused = bool(newdir_ops) and all(o.get("freq") == 0 for o in newdir_ops) and not any(o["op"] == "copy" for o in allops) \
        and not sc.get("default_dir")
    return {"freq": sc["freq"], "keep": sc["keep"], "isasync": sc["isasync"], "freq0": sc["freq"] == 0, "bunused": bunused,
            "fullconfig": sc["fullconfig"], "expectpolicy": sc["kind"] == "PI", "hadcrash": hadcrash,
            "refconv": ref.conv if ref.conv is not None else -5, "resumedconverged": resumed_converged,
            "ev": evs}


def run_scenario(sc: dict, workdir: Path):
    """sc: {name, kind, problem, solver_kw (without checkpoint fields), freq, keep, isasync, fullconfig,
            gens: [{ops: [...], kill_at: n|None, shim_kill: n|None}]}.
    Directory placeholders "@A" / "@B" in ops are replaced by scratch paths."""
    base = workdir / re.sub(r"[^A-Za-z0-9_.-]", "_", sc["name"])
    base.mkdir(parents=True, exist_ok=True)
    A, B = str(base / "ckptA"), str(base / "ckptB")
    if sc.get("dirstyle") == "space_slash":
        A, B = str(base / "ckpt A dir") + "/", str(base / "ckpt B dir") + "//"
    if sc.get("rel_new_dir"):
        # the new directory of a restore is given as a RELATIVE path ("relB") by a process working in base/cwd1
        (base / "cwd1").mkdir(exist_ok=True)
        (base / "cwd2").mkdir(exist_ok=True)
        B = str(base / "cwd1" / "relB")
    sc = dict(sc)
    sc["dirs"] = DirMap({} if sc.get("default_dir") else {A: 1, B: 2})
    gens_out = []
    kw = dict(sc["solver_kw"])
    if sc["freq"] > 0 or sc.get("always_ckpt_args"):
        kw.update({"checkpoint_dir": A, "checkpoint_frequency": sc["freq"], "max_checkpoints": sc["keep"],
                   "enable_async_checkpointing": sc["isasync"]})
    else:
        kw.update({"checkpoint_dir": A, "checkpoint_frequency": 0})
    if sc.get("default_dir"):
        # checkpoint_dir=None: the solver makes up checkpoints/<problem>/<date>/<time>/ under the working directory
        # (the scenario's scratch directory); directories are numbered in order of first appearance
        kw.pop("checkpoint_dir", None)
    prev_digest = None
    for gi, g in enumerate(sc["gens"]):
        ops = json.loads(json.dumps(g["ops"]).replace("@A", A).replace("@B", B).replace("@RELB", "relB"))
        expanded = []
        for o in ops:
            if o["op"] == "restore_each":
                # one explicit-step restore per step directory present right now (post-mortem)
                names = sorted(int(n) for n in os.listdir(A) if n.isdigit()) if os.path.isdir(A) else []
                for st in names:
                    expanded.append({"op": "restore" if sc["fullconfig"] else "load", "dir": A, "step": st})
            else:
                expanded.append(o)
        ops = expanded
        tr = base / f"gen{gi}.ndjson"
        spec = {"problem": sc["problem"], "kind": sc["kind"], "solver_kw": kw, "ops": ops}
        rc, err = run_gen(spec, tr, kill_at=g.get("kill_at"), shim_kill=g.get("shim_kill"),
                          shim_log=(base / f"gen{gi}.shim") if g.get("shim_kill") is not None or g.get("shim_log") or sc.get("shim_log") else None,
                          watch=A, n_devices=g.get("n_devices", 1), maxarr=100000 if sc.get("rtol") else 0,
                          kill_after=g.get("kill_after"), fs_delay_us=sc.get("fs_delay_us", 0),
                          cwd=str(base / g["cwd"]) if g.get("cwd") else (str(base) if sc.get("default_dir") else None),
                          no_x64=bool(sc.get("no_x64")), env_extra=sc.get("env"))
        events = read_events(tr)
        killed = rc == -9
        if rc not in (0, -9):
            raise C.MachineryError(f"scenario {sc['name']} generation {gi}: driver exit {rc}: {err}")
        if not killed and (not events or events[-1]["event"] != "x_exit"):
            last = events[-1]["event"] if events else "<no event>"
            raise C.MachineryError(f"scenario {sc['name']} generation {gi}: trace incomplete (rc={rc}, last event {last}): {err}")
        shim_path = base / f"gen{gi}.shim"
        gens_out.append({"events": events, "killed": killed, "ops": ops,
                         "fs_ops": parse_shim(shim_path, A) if shim_path.exists() else None})
        if g.get("check_unchanged_A"):
            # tree of the original directory must be byte-identical to what it was before this generation
            for ev in events:
                if ev["event"] == "x_listing" and os.path.normpath(ev["dir"]) == os.path.normpath(A):
                    ev["unchanged"] = (tree_digest(A) == prev_digest)
        prev_digest = tree_digest(A)
        if killed and gi == len(sc["gens"]) - 1:
            break
    return sc, gens_out


def reference_for(sc: dict, workdir: Path, extra_after: int = 5) -> Reference:
    base = workdir / ("ref_" + re.sub(r"[^A-Za-z0-9_.-]", "_", sc["refkey"]))
    base.mkdir(parents=True, exist_ok=True)
    tr = base / "ref.ndjson"
    kw = dict(sc["solver_kw"])
    kw["checkpoint_frequency"] = 0
    ops = [dict({"op": "new"}, **(sc.get("new_op") or {})), {"op": "solve", "k": 3000}] + [{"op": "solve", "k": 1}] * extra_after
    if sc["kind"] == "PVI" and kw.get("clear_value_history_on_convergence", True):
        ops = ops[:2]
    rc, err = run_gen({"problem": sc["problem"], "kind": sc["kind"], "solver_kw": kw, "ops": ops}, tr,
                      maxarr=100000 if sc.get("rtol") else 0, no_x64=bool(sc.get("no_x64")))
    if rc != 0:
        raise C.MachineryError(f"reference run failed: {err}")
    return Reference(read_events(tr), rtol=sc.get("rtol", 0.0))


def run_all(scenarios: list, nproc: int | None = None):
    """Run scenarios (and one reference per refkey) in parallel; returns list of (sc, trace)."""
    nproc = nproc or C.NCPU
    out = []
    # scenario names double as directory names: make them unique (two scenarios drawn with equal parameters
    # would otherwise share one checkpoint directory and one trace file)
    seen = {}
    for sc in scenarios:
        n = seen.get(sc["name"], 0)
        seen[sc["name"]] = n + 1
        if n:
            sc["name"] = f"{sc['name']}~{n}"
    with C.Scratch("verif-ckpt-") as wd:
        keys = {}
        for sc in scenarios:
            keys.setdefault(sc["refkey"], sc)
        def attempt(s):
            # one retry from scratch: under heavy load a driver process occasionally dies for reasons that are
            # not the library's (the retry runs in a fresh directory; retries are counted in RETRIES)
            try:
                return run_scenario(s, wd)
            except C.MachineryError as ex:
                RETRIES.append(f"{s['name']}: {str(ex)[:300]}")
                s2 = dict(s)
                s2["name"] = s["name"] + "-retry"
                return run_scenario(s2, wd)
        with cf.ThreadPoolExecutor(nproc) as ex:
            refs = dict(zip(keys, ex.map(lambda s: reference_for(s, wd), keys.values())))
            # iteration limits stated relative to the iteration at which the uninterrupted run converges
            runnable = []
            for s in scenarios:
                conv = refs[s["refkey"]].conv
                txt = json.dumps(s["gens"])
                if "@CONV" in txt:
                    if conv is None or conv < 3:
                        SKIPPED.append(s["name"])
                        continue
                    txt = txt.replace('"@CONV-1"', str(conv - 1)).replace('"@CONV+1"', str(conv + 1)).replace('"@CONV"', str(conv))
                    s["gens"] = json.loads(txt)
                    s["conv_resolved"] = conv
                runnable.append(s)
            results = list(ex.map(attempt, runnable))
        for sc, gens in results:
            ref = refs[sc["refkey"]]
            if ref.conv is None and sc.get("need_conv", True):
                # no convergence within 3000 iterations (e.g. policy iteration oscillating under a truncated
                # evaluation): the family has no reference end point and is left out (counted)
                SKIPPED.append(sc["name"])
                continue
            out.append((sc, build_trace(sc, gens, ref), gens))
    return out
