"""Replay one stored violation: ./check <id> --replay /verif/replays/<id>/violation_NNN.json

Re-executes the failing case against /repo's current tree (or VERIF_REPO) and has TLC judge it again.
Exit 1 (with a VIOLATION line) if it still fails, 0 if it is now accepted.
"""
from __future__ import annotations

import json

from . import common as C


def run(prop: str, path: str) -> int:
    rec = json.loads(open(path).read())
    det = rec.get("detail", {})
    print(f"replaying {path}\n  key: {rec.get('key')}")
    rejected = None
    if "job" in det:
        from . import solverlib
        job = det["job"]
        j2, trs = solverlib.run_jobs([job], nproc=1)
        module = "PITrace" if job["kind"] == "PI" else "SolverTrace"
        payload = [{k: v for k, v in t.items() if k not in solverlib.STRIP} for t in trs if "ev" in t]
        crashed = [t for t in trs if "crash" in t or t.get("error")]
        acc, rej, drift, _ = C.judge_traces(module, payload, what="replay")
        rejected = bool(rej) or bool(crashed)
        for k, v in rej.items():
            print("  REJECT", v[0])
        for t in crashed:
            print("  ERROR", t.get("crash") or t.get("error"))
    elif "scenario" in det:
        from . import ckptlib
        sc = det["scenario"]
        sc.pop("dirs", None)
        res = ckptlib.run_all([sc])
        acc, rej, drift, _ = C.judge_traces("CheckpointTrace", [t for _, t, _ in res], what="replay")
        rejected = bool(rej)
        for k, v in rej.items():
            print("  REJECT", v[0])
        for k, v in drift.items():
            print("  NOTE", v[0])
    elif "params" in det:
        from . import invlib
        P = dict(det["params"])
        P.setdefault("coef", invlib.COEFS[P["kind"]][0])
        obs = [{k: v for k, v in o.items() if k != "nonfinite_or_negative_prob"} for o in invlib.observe([P])]
        acc, rej, drift, _ = C.judge_traces("InventoryTrace", obs, chunk=4, what="replay")
        rejected = any(f[0] == prop for v in rej.values() for f in v)
        for k, v in rej.items():
            print("  REJECT", [f[:2] for f in v])
    else:
        print("  this replay file records the observation itself; re-run the check to re-observe it:")
        print(json.dumps(det, indent=1)[:3000])
        return 2
    if rejected:
        print(f"VIOLATION property={prop} replay={path}")
        return 1
    print("accepted on the current tree")
    return 0
