"""Entry point: ./check <property id> [--tier quick|thorough]."""
import argparse
import importlib
import os
import sys
import traceback

from . import common as C


def main():
    ap = argparse.ArgumentParser()
    ap.add_argument("prop")
    ap.add_argument("--tier", default=os.environ.get("VERIF_TIER", "quick"),
                    choices=["quick", "thorough"])
    ap.add_argument("--replay", default=None, help="re-execute one stored violation file")
    args = ap.parse_args()
    try:
        if args.replay:
            from . import replay
            sys.exit(replay.run(args.prop, args.replay))
        mod = importlib.import_module("harness." + args.prop.lower())
        rc = mod.run(args.tier)
    except C.MachineryError as ex:
        print(f"MACHINERY-FAILURE property={args.prop}: {ex}", file=sys.stderr)
        sys.exit(2)
    except Exception:
        traceback.print_exc()
        print(f"MACHINERY-FAILURE property={args.prop}: harness exception", file=sys.stderr)
        sys.exit(2)
    sys.exit(rc)


if __name__ == "__main__":
    main()
