"""C09 - interrupt-and-resume at any iteration equals an uninterrupted run."""
from __future__ import annotations

import random

from . import ckptlib, common as C
from .ckpt_scen import BIG, base_scenario, problems, restore_op


def scenarios(tier, rng):
    P = problems(rng)
    out = []
    combos = [("VI", "forest"), ("PI", "forest"), ("RVI", "tab_unichain"), ("PVI", "forest12"), ("SAVI", "forest"),
              ("VI", "tabular"), ("PI", "tabular"), ("PVI", "tab_ring")]
    if tier == "thorough":
        combos += [("VI", "de_moor"), ("RVI", "hendrix"), ("PVI", "mirjalili"), ("SAVI", "tabular"),
                   ("RVI", "forest"), ("PI", "de_moor")]
    for kind, pname in combos:
        pspec, full = P[pname]
        ks = [1, 2, 3, 5, 8] if tier == "quick" else list(range(1, 16))
        ks = rng.sample(ks, 3) if tier == "quick" else ks
        for k in ks:
            freq = rng.choice([1, 2, 3])
            keep = rng.choice([1, 2, 3])
            isasync = rng.random() < 0.5
            gens = [{"ops": [{"op": "new"}, {"op": "solve", "k": k}, {"op": "wait"}, {"op": "list", "dir": "@A"}]},
                    {"ops": [{"op": "list", "dir": "@A"}, restore_op(full), {"op": "solve", "k": BIG},
                             {"op": "wait"}, {"op": "list", "dir": "@A"}]}]
            if rng.random() < 0.35:
                # a chain of interruptions
                k2 = rng.randint(1, 4)
                gens = [gens[0],
                        {"ops": [{"op": "list", "dir": "@A"}, restore_op(full), {"op": "solve", "k": k2},
                                 {"op": "wait"}, {"op": "list", "dir": "@A"}]},
                        gens[1]]
            if rng.random() < 0.3:
                # the fresh process may see a different number of devices than the one that saved
                d1, d2 = rng.choice([(2, 1), (1, 2), (3, 2), (2, 3)])
                gens[0]["n_devices"] = d1
                for g in gens[1:]:
                    g["n_devices"] = d2
            kw = {}
            if kind == "PI":
                kw = {"reset_values_for_each_policy_eval": rng.random() < 0.5,
                      "convergence_test": rng.choice(["span", "max_diff"])}
            if kind in ("VI", "SAVI"):
                kw = {"convergence_test": rng.choice(["span", "max_diff"])}
            tagkw = "".join(f"-{str(v)[:4]}" for v in kw.values())
            sc = base_scenario(f"{kind}-{pname}-k{k}-f{freq}m{keep}{'a' if isasync else 's'}{tagkw}", kind, pname,
                               pspec, full, freq, keep, isasync, gens, kw=kw)
            if any(g.get("n_devices", 1) > 1 for g in gens):
                # another device count may change the vectorisation: "up to floating-point reproducibility"
                sc["rtol"] = 1e-12
                sc["refkey"] += "-rtol"
                sc["name"] += "-dev" + "".join(str(g.get("n_devices", 1)) for g in gens)
            out.append(sc)
    return out


def key_for(sc, clause):
    return None


def report(rep, results, label):
    """Judge scenario traces with CheckpointTrace.tla; results: list of (sc, trace, gens)."""
    traces = [t for _, t, _ in results]
    acc, rej, drift, tl = C.judge_traces("CheckpointTrace", traces, chunk=500, what=label)
    rep.extra_drift = drift
    for r in tl:
        rep.add_tlc("CheckpointTrace " + label, r)
    rep.traces += len(traces)
    for k, (sc, tr, gens) in enumerate(results):
        desc = {"scenario": sc["name"], "kind": sc["kind"], "freq": sc["freq"], "keep": sc["keep"],
                "async": sc["isasync"], "generations": len(gens), "devices": [g.get("n_devices", 1) for g in sc["gens"]],
                "kills": [g.get("kill_at") or g.get("shim_kill") or g.get("kill_after") for g in sc["gens"]]}
        rep.case(desc, nontrivial=len(tr["ev"]) > 3)
        if k in rej:
            at, prop, clause = rej[k][0][0], rej[k][0][1], rej[k][0][2]
            yield sc, tr, at, prop, clause, desc


def run(tier):
    rep = C.Report("C09", tier)
    rng = random.Random(C.seed() + 9)
    rep.rule = ("design: TLC explores the Checkpoint model (solver thread, Orbax writer, directory, clean interruptions "
                "and restarts) over frequency x retention x sync/async x convergence points x call sequences with the "
                "resume-equivalence and checkpointing-is-inert invariants; binding: real runs interrupted after k "
                "iterations in one process and restored (restore() / load_checkpoint()) in a fresh process, chains of "
                "interruptions, every recorded array tagged bitwise against the uninterrupted reference run and the "
                "concatenated trace judged by CheckpointTrace.tla. distinct = distinct scenario; non-trivial = more than "
                "three events")
    for cfg in ("Checkpoint.cfg", "CheckpointCalls.cfg"):
        res = C.run_tlc("Checkpoint", cfg, coverage=True)
        C.tlc_must_be_clean(res, "Checkpoint " + cfg)
        rep.add_tlc(f"Checkpoint ({cfg})", res)
        if res.invariant_violated:
            rep.violation("spec:Checkpoint " + ",".join(res.violated), {"tlc": res.out[-3000:]})
    scs = scenarios(tier, rng)
    results = ckptlib.run_all(scs)
    for sc, tr, at, prop, clause, desc in report(rep, results, "C09"):
        rep.violation(f"{prop} {clause} :: {desc}", {"scenario": sc, "clause": clause, "event_index": at,
                                                        "event": tr["ev"][at - 1] if 0 < at <= len(tr["ev"]) else None})
    for sc, tr, _ in results[:3]:
        rep.sample({"scenario": sc["name"], "events": [{k: e[k] for k in ("e", "iter", "vtag", "step", "fin") if e[k] not in (0, [], "")}
                                                      for e in tr["ev"][:14]]})
    rep.assumptions = ["bitwise reproducibility of the platform across processes (checked: the reference tags every sweep)",
                       "semi-async with shuffling is excluded (PRNG key is not checkpointed; only the error bound is promised)"]
    rep.extra["machinery_retries"] = list(ckptlib.RETRIES)
    rep.extra["scenarios_skipped_reference_did_not_converge"] = list(ckptlib.SKIPPED)
    return rep.finish()
