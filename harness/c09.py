"""C09 - interrupt-and-resume at any iteration equals an uninterrupted run."""
from __future__ import annotations

import random

from . import ckptlib, common as C
from .ckpt_scen import BIG, base_scenario, problems, restore_op


def scenarios(tier, rng):
    P = problems(rng)
    out = []
    combos = [("VI", "forest"), ("PI", "forest"), ("RVI", "tab_unichain"), ("PVI", "forest12"), ("SAVI", "forest"),
              ("VI", "tabular"), ("PI", "tabular"), ("PVI", "tab_ring")]
    if tier == "thorough":
        combos += [("VI", "de_moor"), ("RVI", "hendrix"), ("PVI", "mirjalili"), ("SAVI", "tabular"),
                   ("RVI", "forest"), ("PI", "de_moor")]
    for kind, pname in combos:
        pspec, full = P[pname]
        ks = [1, 2, 3, 5, 8] if tier == "quick" else list(range(1, 16))
        ks = rng.sample(ks, 3) if tier == "quick" else ks
        for k in ks:
            freq = rng.choice([1, 2, 3])
            keep = rng.choice([1, 2, 3])
            isasync = rng.random() < 0.5
            gens = [{"ops": [{"op": "new"}, {"op": "solve", "k": k}, {"op": "wait"}, {"op": "list", "dir": "@A"}]},
                    {"ops": [{"op": "list", "dir": "@A"}, restore_op(full), {"op": "solve", "k": BIG},
                             {"op": "wait"}, {"op": "list", "dir": "@A"}]}]
            if rng.random() < 0.35:
                # a chain of interruptions
                k2 = rng.randint(1, 4)
                gens = [gens[0],
                        {"ops": [{"op": "list", "dir": "@A"}, restore_op(full), {"op": "solve", "k": k2},
                                 {"op": "wait"}, {"op": "list", "dir": "@A"}]},
                        gens[1]]
            if rng.random() < 0.3:
                # the fresh process may see a different number of devices than the one that saved
                d1, d2 = rng.choice([(2, 1), (1, 2), (3, 2), (2, 3)])
                gens[0]["n_devices"] = d1
                for g in gens[1:]:
                    g["n_devices"] = d2
            kw = {}
            if kind == "PI":
                kw = {"reset_values_for_each_policy_eval": rng.random() < 0.5,
                      "convergence_test": rng.choice(["span", "max_diff"])}
            if kind in ("VI", "SAVI"):
                kw = {"convergence_test": rng.choice(["span", "max_diff"])}
            tagkw = "".join(f"-{str(v)[:4]}" for v in kw.values())
            sc = base_scenario(f"{kind}-{pname}-k{k}-f{freq}m{keep}{'a' if isasync else 's'}{tagkw}", kind, pname,
                               pspec, full, freq, keep, isasync, gens, kw=kw)
            if any(g.get("n_devices", 1) > 1 for g in gens):
                # another device count may change the vectorisation: "up to floating-point reproducibility"
                sc["rtol"] = 1e-12
                sc["refkey"] += "-rtol"
                sc["name"] += "-dev" + "".join(str(g.get("n_devices", 1)) for g in gens)
            out.append(sc)
    # processes that do NOT switch 64-bit mode on by hand (a user script that just imports mdpax) and build the solver
    # from a configuration alone: the run resumed by restore() in such a process must still follow the uninterrupted
    # run of such a process bit for bit (problems that precompute float tables: precision of those tables included)
    for kind, pname in ([("VI", "de_moor"), ("RVI", "hendrix")] if tier == "quick" else
                        [("VI", "de_moor"), ("RVI", "hendrix"), ("PI", "mirjalili"), ("VI", "forest"), ("PVI", "mirjalili")]):
        pspec, full = P[pname]
        for k in ([3] if tier == "quick" else [1, 4, 7]):
            sc = base_scenario(f"{kind}-{pname}-k{k}-config-only-no-x64-by-hand", kind, pname, pspec, full, 1, 2, False,
                               [{"ops": [{"op": "new", "config_only": True}, {"op": "solve", "k": k}, {"op": "wait"},
                                         {"op": "list", "dir": "@A"}]},
                                {"ops": [{"op": "list", "dir": "@A"}, restore_op(full), {"op": "solve", "k": BIG},
                                         {"op": "wait"}, {"op": "list", "dir": "@A"}]}],
                               no_x64=True, new_op={"config_only": True})
            sc["refkey"] += "-config-only-no-x64"
            out.append(sc)
    return out


def key_for(sc, clause):
    return None


def report(rep, results, label):
    """Judge scenario traces with CheckpointTrace.tla; results: list of (sc, trace, gens)."""
    traces = [t for _, t, _ in results]
    acc, rej, drift, tl = C.judge_traces("CheckpointTrace", traces, chunk=500, what=label)
    rep.extra_drift = drift
    for r in tl:
        rep.add_tlc("CheckpointTrace " + label, r)
    rep.traces += len(traces)
    for k, (sc, tr, gens) in enumerate(results):
        desc = {"scenario": sc["name"], "kind": sc["kind"], "freq": sc["freq"], "keep": sc["keep"],
                "async": sc["isasync"], "generations": len(gens), "devices": [g.get("n_devices", 1) for g in sc["gens"]],
                "kills": [g.get("kill_at") or g.get("shim_kill") or g.get("kill_after") for g in sc["gens"]]}
        rep.case(desc, nontrivial=len(tr["ev"]) > 3)
        if k in rej:
            at, prop, clause = rej[k][0][0], rej[k][0][1], rej[k][0][2]
            yield sc, tr, at, prop, clause, desc


def reload_jobs(tier, rng):
    from . import gen
    vi, pi = [], []
    n = 5 if tier == "quick" else 60
    for k in range(n):
        for kind in ("VI", "SAVI", "SAVIshuffle", "RVI", "PVI", "PI"):
            shuffle = kind == "SAVIshuffle"
            kd = "SAVI" if shuffle else kind
            if kd == "RVI":
                m, g = gen.unichain(rng, ns=rng.randint(2, 5), PD=2, v0max=rng.choice([0, 2])), [1, 1]
            elif kd == "PVI":
                m, g = gen.ring(rng, rng.randint(2, 3), extra=rng.randint(0, 3), v0max=1), [1, 1]
            else:
                m = gen.union(rng, rng.randint(2, 5), PD=rng.choice([1, 2]), na=2, ne=rng.choice([1, 2]), rmax=3,
                              v0max=rng.choice([0, 2]), plain=rng.random() < 0.5, chain=rng.random() < 0.5)
                g = rng.choice([[1, 2], [1, 4]])
            first = rng.choice([1, 2, 3, 5])
            calls = rng.choice([[first, 60], [first, 2, 60], [first, 1, 1, 60]])
            before = sorted(rng.sample(range(1, len(calls)), rng.randint(1, len(calls) - 1)))
            job = {"mdp": m, "kind": kd, "gamma": g, "eps": [1, rng.choice([1, 2, 3])], "test": rng.choice(["span", "max_diff"]),
                   "calls": calls, "mbs": rng.choice([2, 3, 1024]), "cert": kd in ("VI", "SAVI", "PI", "RVI"),
                   "reload": {"before_calls": before, "freq": rng.choice([1, 2, 3]), "keep": rng.choice([1, 2, 5]),
                              "async": rng.random() < 0.5},
                   "tag": f"reload-{kind}{k}"}
            if kd == "SAVI":
                job.update({"shuffle": shuffle, "seed": rng.randrange(1000)})
            if kd == "PVI":
                job.update({"period": rng.randint(2, 3), "clear": False})
            if kd == "PI":
                job.update({"max_eval_iter": rng.choice([2, 30]), "reset": rng.random() < 0.3})
                pi.append(job)
            else:
                vi.append(job)
    # the solver object in use re-loads its own latest checkpoint between two calls: with shuffling it must go on with
    # ITS stream of permutations (a twin solver with the same seed and one long call draws the reference sequence)
    for k in range(3 if tier == "quick" else 20):
        m = gen.union(rng, rng.randint(3, 6), PD=2, na=2, ne=2, rmax=3, v0max=1, plain=True, chain=True)
        calls = rng.choice([[2, 1], [1, 2, 1], [2, 2]])
        vi.append({"mdp": m, "kind": "SAVI", "gamma": [1, 2], "eps": [1, 10], "test": "span", "calls": calls,
                   "mbs": rng.choice([2, 3]), "shuffle": True, "seed": rng.randrange(1000), "twin": True, "twin_calls": [sum(calls)],
                   "reload": {"before_calls": [len(calls) - 1], "same_object": True, "freq": 1, "keep": 2, "async": k % 2 == 0},
                   "cert": False, "tag": f"reload-same-object{k}", "min_sweeps": sum(calls)})
    return vi, pi


def run(tier):
    rep = C.Report("C09", tier)
    rng = random.Random(C.seed() + 9)
    rep.rule = ("design: TLC explores the Checkpoint model (solver thread, Orbax writer, directory, clean interruptions "
                "and restarts) over frequency x retention x sync/async x convergence points x call sequences with the "
                "resume-equivalence and checkpointing-is-inert invariants; binding: real runs interrupted after k "
                "iterations in one process and restored (restore() / load_checkpoint()) in a fresh process, chains of "
                "interruptions, every recorded array tagged bitwise against the uninterrupted reference run and the "
                "concatenated trace judged by CheckpointTrace.tla. distinct = distinct scenario; non-trivial = more than "
                "three events")
    for cfg in ("Checkpoint.cfg", "CheckpointCalls.cfg"):
        res = C.run_tlc("Checkpoint", cfg, coverage=True)
        C.tlc_must_be_clean(res, "Checkpoint " + cfg)
        rep.add_tlc(f"Checkpoint ({cfg})", res)
        if res.invariant_violated:
            rep.violation("spec:Checkpoint " + ",".join(res.violated), {"tlc": res.out[-3000:]})
    scs = scenarios(tier, rng)
    results = ckptlib.run_all(scs)
    for sc, tr, at, prop, clause, desc in report(rep, results, "C09"):
        rep.violation(f"{prop} {clause} :: {desc}", {"scenario": sc, "clause": clause, "event_index": at,
                                                        "event": tr["ev"][at - 1] if 0 < at <= len(tr["ev"]) else None})
    # ---- resume inside exactly judged runs (table MDPs, dyadic arithmetic): between two solve() calls a NEW solver
    # instance loads the latest checkpoint and continues; SolverTrace / PITrace recompute every sweep, measure, stop
    # and (periodic) history use from the state the previous instance ended with.  With state shuffling the resumed
    # run draws other permutations (the key is not checkpointed): every sweep is still recomputed for its own
    # permutation and, at convergence, the documented error bound is checked with a TLC-verified certificate.
    from . import solverlib
    vi_jobs, pi_jobs = reload_jobs(tier, rng)
    for jobs, module in ((vi_jobs, "SolverTrace"), (pi_jobs, "PITrace")):
        j2, traces = solverlib.run_jobs(jobs)
        for j, t in zip(j2, traces):
            n_begin = sum(1 for e in t.get("ev", []) if e["e"] == "begin")
            if "crash" not in t and t.get("complete") and n_begin < 2:
                raise C.MachineryError(f"reload job {j.get('tag')} did not reach its second call")
        solverlib.judge(rep, j2, traces, module=module, label="C09")
    rep.extra["exactly_judged_runs_resumed_from_a_checkpoint"] = len(vi_jobs) + len(pi_jobs)
    for sc, tr, _ in results[:3]:
        rep.sample({"scenario": sc["name"], "events": [{k: e[k] for k in ("e", "iter", "vtag", "step", "fin") if e[k] not in (0, [], "")}
                                                      for e in tr["ev"][:14]]})
    rep.assumptions = ["bitwise reproducibility of the platform across processes (checked: the reference tags every sweep)",
                       "semi-async with shuffling: not part of the tagged scenarios (the key is not checkpointed); its resumed "
                       "runs are judged exactly sweep by sweep and against the error bound in the reload jobs"]
    rep.extra["machinery_retries"] = list(ckptlib.RETRIES)
    rep.extra["scenarios_skipped_reference_did_not_converge"] = list(ckptlib.SKIPPED)
    return rep.finish()
