"""TabularProblem: renders an integer-table MDP as an mdpax Problem, plus dyadic MDP generators.

A *table MDP* is a plain dict (JSON-able, ints only):
  ns, na, ne          sizes
  next[s][a][e]       successor index (0-based)
  rew[s][a][e]        reward numerator; real reward = rew / 2**rexp
  pk[s][a][e]         probability numerator; real probability = pk / PD
  PD                  power of two
  rexp                reward exponent (>= 0)
  v0[s], v0exp        initial values  v0 / 2**v0exp
  render              dict describing how the tables are exposed to mdpax (vector shapes etc.)

The renderer deliberately exercises the Problem API surface the properties quantify over:
1..3-dimensional state vectors with non-zero lower bounds, 1..2-component action vectors with
duplicated rows, 1..2-dimensional events, probabilities returned as scalars or 1-element arrays,
non-zero initial values and optional initial policies.
"""

from __future__ import annotations

import itertools
import random
from fractions import Fraction

import numpy as np


# ---------------------------------------------------------------------------
# exact float <-> dyadic


def to_dyadic(x: float):
    """float -> (n, e) with x == n / 2**e exactly, n odd or zero, e >= 0 (None if not finite)."""
    x = float(x)
    if x != x or x in (float("inf"), float("-inf")):
        return None
    fr = Fraction(x)
    n, d = fr.numerator, fr.denominator
    e = d.bit_length() - 1
    assert d == 1 << e
    return n, e


def at_scale(x: float, exp: int):
    """Integer n with x == n / 2**exp exactly, else None (inexact at that scale / not finite)."""
    d = to_dyadic(x)
    if d is None:
        return None
    n, e = d
    if e > exp:
        return None
    return n << (exp - e)


# ---------------------------------------------------------------------------
# rendering


def _box(dims, lows):
    ranges = [range(lo, lo + d) for lo, d in zip(lows, dims)]
    return np.array(list(itertools.product(*ranges)), dtype=np.int32).reshape(-1, len(dims))


def factor_shape(n: int, ndim: int, rng: random.Random):
    """A box shape with `ndim` dimensions whose product is n (falls back to fewer dims)."""
    if ndim == 1:
        return [n]
    facs = [d for d in range(2, n) if n % d == 0]
    if not facs:
        return [n]
    d = rng.choice(facs)
    return [d] + factor_shape(n // d, ndim - 1, rng)


def default_render(ns, na, ne, rng: random.Random | None = None, plain=False):
    rng = rng or random.Random(0)
    if plain:
        return {
            "sdims": [ns], "slows": [0], "avecs": [[a] for a in range(na)],
            "evecs": [[e] for e in range(ne)], "prob_as_array": False, "has_init_policy": False,
        }
    sd = factor_shape(ns, rng.choice([1, 1, 2, 3]), rng)
    slows = [rng.choice([0, 0, 1, -1, 2]) for _ in sd]
    adim = rng.choice([1, 2])
    avecs = []
    for a in range(na):
        v = [a // 2, a % 2 + 3][:adim] if adim == 2 else [a + rng.choice([0, 0, 5])]
        avecs.append(v)
    if adim == 1:
        # keep distinct unless duplicates are explicitly requested by the MDP (dup actions are
        # expressed by the generator through identical table rows *and* identical vectors)
        seen = set()
        for i, v in enumerate(avecs):
            while tuple(v) in seen:
                v = [v[0] + 1]
            seen.add(tuple(v))
            avecs[i] = v
    edim = rng.choice([1, 2])
    evecs = [[e, 7 - e][:edim] for e in range(ne)]
    return {
        "sdims": sd, "slows": slows, "avecs": avecs, "evecs": evecs,
        "prob_as_array": rng.random() < 0.3, "has_init_policy": False,
        "outside_to_last": any(lo > 0 or lo + d <= 0 for lo, d in zip(slows, sd)) and rng.random() < 0.6,
        "ghost": any(lo > 0 or lo + d <= 0 for lo, d in zip(slows, sd)),
        "v0_int": rng.random() < 0.25,
        "v0_f32": rng.random() < 0.2,
        "v0_on_instance": rng.random() < 0.25,
        "adiv": rng.choice([1, 1, 1, 2, 4, 2 ** 30, 2 ** 700]),   # 2^30: distinct actions closer than 1e-8; 2^700: the
                                                                  # SQUARE of their difference underflows to zero
        "aoffset": rng.choice([0, 0, 0, 1000000]),           # distinct actions closer than 1e-5 relative
        "sdiv": rng.choice([1, 1, 1, 2, 4]),
    }


def action_array(render, na):
    """The action space as the problem presents it: int32 rows, or float64 rows with fractional components
    (render["adiv"] > 1: every component divided by adiv - e.g. order quantities in half units)."""
    a = np.array(render["avecs"], dtype=np.int32)
    a = a.reshape(len(render["avecs"]), -1)[:na] + np.int32(render.get("aoffset", 0))
    adiv = int(render.get("adiv", 1))
    return a if adiv == 1 else a.astype(np.float64) / adiv


def make_problem(mdp: dict):
    """Build the mdpax Problem for a table MDP (imports jax/mdpax lazily)."""
    import jax.numpy as jnp
    from mdpax.core.problem import Problem

    r = mdp["render"]
    ns, na, ne = mdp["ns"], mdp["na"], mdp["ne"]
    sdims, slows = r["sdims"], r["slows"]
    assert int(np.prod(sdims)) == ns
    states = _box(sdims, slows)
    strides = np.array(
        [int(np.prod(sdims[i + 1:])) for i in range(len(sdims))], dtype=np.int32
    )
    # "nax" > na: the transition function also understands nax - na action vectors that are NOT listed in the action
    # space (e.g. an order quantity beyond the discretised lots); only a supplied initial policy can use them
    nax = int(mdp.get("nax", na))
    avecs_all = action_array(r, nax)
    avecs = avecs_all[:na]
    afloat = avecs.dtype != np.int32
    evecs = np.array(r["evecs"], dtype=np.int32).reshape(ne, -1)
    # Row ns of every table is a GHOST row used for vectors outside the state space (only the all-zero
    # padding rows ever are): like a problem whose transition is arithmetic on the vector, an unlisted
    # vector has dynamics of its own (reward 7, jumps to the last state) although the index function maps
    # it onto a listed state.  Nothing computed for it may ever reach a real state.
    ghost = bool(r.get("ghost", False))
    listed_na, na = na, nax            # the tables cover listed and unlisted actions
    nxt_np = np.array(mdp["next"], dtype=np.int32).reshape(ns, na, ne)
    rew_np = np.array(mdp["rew"], dtype=np.float64).reshape(ns, na, ne) / float(2 ** mdp["rexp"])
    prob_np = np.array(mdp["pk"], dtype=np.float64).reshape(ns, na, ne) / float(mdp["PD"])
    v0_np = np.array(mdp["v0"], dtype=np.float64) / float(2 ** mdp["v0exp"])
    rare = mdp.get("rare")
    if rare:
        # A RARE CATASTROPHIC EVENT: one more event with probability 2^-pexp (far below single precision's smallest
        # normal number) and a reward of magnitude 2^pexp, whose product c[s][a] is an ordinary number.  The tables
        # handed to the model checker are the exactly equivalent ones in which c[s][a] is added to every other event's
        # reward (rows sum to one): in float64, r_rare + gamma*V rounds to r_rare, times 2^-pexp is c exactly, and all
        # partial sums are short dyadics - so the real sweep must equal the model's sweep bit for bit.
        assert all(sum(row) == mdp["PD"] for sa in mdp["pk"] for row in sa)
        cmat = np.array(rare["c"], dtype=np.float64).reshape(ns, na, 1) / float(2 ** mdp["rexp"])
        pexp = int(rare["pexp"])
        rew_np = np.concatenate([rew_np - cmat, cmat * 2.0 ** pexp], axis=2)
        prob_np = np.concatenate([prob_np, np.full((ns, na, 1), 2.0 ** -pexp)], axis=2)
        nxt_np = np.concatenate([nxt_np, np.full((ns, na, 1), int(rare["next"]), dtype=np.int32)], axis=2)
        edim = evecs.shape[1]
        evecs = np.concatenate([evecs, np.array([[ne, 7 - ne][:edim]], dtype=np.int32)])
        ne = ne + 1
    nxt_np = np.concatenate([nxt_np, np.full((1, na, ne), ns - 1, dtype=np.int32)])
    rew_np = np.concatenate([rew_np, np.full((1, na, ne), 7.0)])
    prob_np = np.concatenate([prob_np, prob_np[:1]])
    v0_np = np.concatenate([v0_np, [3.0]])
    nxt = jnp.array(nxt_np)
    rew = jnp.array(rew_np)
    prob = jnp.array(prob_np)
    if r.get("prob_int") and mdp["PD"] == 1 and not rare:
        # a deterministic problem whose probability function returns integer-typed indicators (1 / 0)
        prob = jnp.array(prob_np.astype(np.int32))
    v0 = jnp.array(v0_np)
    # an initial-value heuristic computed from integer state vectors is integer-typed
    v0_int = bool(r.get("v0_int", False)) and mdp["v0exp"] == 0
    if v0_int:
        v0 = jnp.array(np.round(v0_np).astype(np.int32))
    elif r.get("v0_f32"):
        # an initial-value heuristic written in single precision (dyadic values: exactly representable)
        v0 = jnp.array(v0_np.astype(np.float32))
    pol0 = None
    if r.get("has_init_policy"):
        rows = avecs_all[np.array(mdp["pol0"], dtype=np.int32)]
        if r.get("pol0_as_int") and afloat and np.all(rows == np.round(rows)):
            # a starting heuristic that returns whole-number actions as an integer array although the action space is
            # float-valued (e.g. "order nothing" = jnp.array([0]))
            rows = np.round(rows).astype(np.int32)
        pol0 = jnp.array(rows)
    # state vectors with fractional components (e.g. a grid in half units): float64 rows, render["sdiv"] > 1
    sdiv = int(r.get("sdiv", 1))
    j_states = jnp.array(states) if sdiv == 1 else jnp.array(states.astype(np.float64) / sdiv)

    def _ivec(state):
        if sdiv == 1:
            return jnp.asarray(state).astype(jnp.int32)
        return jnp.round(jnp.asarray(state) * sdiv).astype(jnp.int32)
    j_avecs = jnp.array(avecs_all)            # what the transition function understands
    j_listed = jnp.array(avecs)              # what the action space lists
    j_evecs = jnp.array(evecs)
    j_strides = jnp.array(strides)
    j_lows = jnp.array(np.array(slows, dtype=np.int32))
    j_dims = jnp.array(np.array(sdims, dtype=np.int32))
    prob_as_array = r.get("prob_as_array", False)
    # "wild": only for the plain one-dimensional rendering (states 0..ns-1)
    wild = bool(r.get("wild_zero_prob")) and list(sdims) == [ns] and list(slows) == [0] and sdiv == 1 and not ghost
    outside_to_last = bool(r.get("outside_to_last", False))

    class TabularProblem(Problem):
        @property
        def name(self):
            return "verif_tabular"

        def _construct_state_space(self):
            return j_states

        def _construct_action_space(self):
            return j_listed

        def _construct_random_event_space(self):
            return j_evecs

        def state_to_index(self, state):
            if wild:
                return _ivec(state)[0]            # one-dimensional space from 0: the component itself, not clipped
            v = _ivec(state) - j_lows
            rel = jnp.clip(v, 0, j_dims - 1)
            idx = jnp.sum(rel * j_strides)
            if outside_to_last:
                # vectors outside the box (only padding rows ever are) alias the LAST state - the index
                # of an unlisted vector is unspecified by the Problem API; this choice puts the alias in
                # the same batch as the padding rows
                inside = jnp.all((v >= 0) & (v <= j_dims - 1))
                idx = jnp.where(inside, idx, ns - 1)
            return idx

        def _aidx(self, action):
            if afloat:
                return jnp.argmax(jnp.all(j_avecs == jnp.asarray(action), axis=1))
            return jnp.argmax(jnp.all(j_avecs == jnp.asarray(action).astype(jnp.int32), axis=1))

        def _eidx(self, event):
            return jnp.argmax(jnp.all(j_evecs == jnp.asarray(event).astype(jnp.int32), axis=1))

        def _row(self, state):
            if not ghost:
                return self.state_to_index(state)
            v = _ivec(state) - j_lows
            inside = jnp.all((v >= 0) & (v <= j_dims - 1))
            return jnp.where(inside, self.state_to_index(state), ns)

        def random_event_probability(self, state, action, random_event):
            p = prob[self._row(state), self._aidx(action), self._eidx(random_event)]
            return p.reshape(1) if prob_as_array else p

        def transition(self, state, action, random_event):
            s, a, e = self._row(state), self._aidx(action), self._eidx(random_event)
            if wild:
                # an event that cannot happen (probability exactly 0) may "lead" anywhere - here to a vector far outside
                # the state space whose index (state[0], unclipped, as in a problem that enforces its boundary through
                # the probabilities) is beyond the last state; it must contribute nothing
                nxt_vec = jnp.where(prob[s, a, e] == 0, j_states[nxt[s, a, e]] + (ns + 3), j_states[nxt[s, a, e]])
                return nxt_vec, rew[s, a, e]
            return j_states[nxt[s, a, e]], rew[s, a, e]

        if not r.get("v0_on_instance"):
            def initial_value(self, state):
                return v0[self._row(state)]

    if pol0 is not None and not r.get("init_policy_on_instance"):
        def initial_policy(self, state):
            return pol0[self.state_to_index(state)]

        TabularProblem.initial_policy = initial_policy

    instance = TabularProblem()
    if r.get("v0_on_instance"):
        # a warm start assigned on the instance (the class keeps the default initial_value)
        instance.initial_value = lambda state: v0[instance._row(state)]
    if pol0 is not None and r.get("init_policy_on_instance"):
        # a problem that chooses its starting heuristic per instance (assigned in its constructor)
        instance.initial_policy = lambda state: pol0[instance.state_to_index(state)]
    return instance


# ---------------------------------------------------------------------------
# generators


def _rand_probs(ne, PD, rng):
    """Random numerators over PD summing to PD (zeros allowed)."""
    cuts = sorted(rng.randint(0, PD) for _ in range(ne - 1))
    parts = [b - a for a, b in zip([0] + cuts, cuts + [PD])]
    rng.shuffle(parts)
    return parts


def random_mdp(rng: random.Random, ns=None, na=None, ne=None, PD=None, rmax=4, rexp=0,
               v0max=0, v0exp=0, dup_action=False, sparse=True, plain_render=False,
               unichain_sink=False):
    ns = ns or rng.randint(2, 12)
    na = na or rng.randint(1, 3)
    ne = ne or rng.randint(1, 3)
    PD = PD or rng.choice([1, 2, 4])
    nxt, rew, pk = [], [], []
    for s in range(ns):
        nr, rr, pr = [], [], []
        for a in range(na):
            if sparse:
                cand = [rng.randrange(ns) for _ in range(2)]
                n_row = [rng.choice(cand) for _ in range(ne)]
            else:
                n_row = [rng.randrange(ns) for _ in range(ne)]
            if unichain_sink and rng.random() < 0.5:
                n_row[rng.randrange(ne)] = ns - 1
            nr.append(n_row)
            rr.append([rng.randint(-rmax, rmax) for _ in range(ne)])
            pr.append(_rand_probs(ne, PD, rng) if PD > 1 else
                      [1 if e == 0 else 0 for e in range(ne)])
        nxt.append(nr)
        rew.append(rr)
        pk.append(pr)
    if dup_action and na >= 2:
        for s in range(ns):
            nxt[s][na - 1] = list(nxt[s][0])
            rew[s][na - 1] = list(rew[s][0])
            pk[s][na - 1] = list(pk[s][0])
    mdp = {
        "ns": ns, "na": na, "ne": ne, "next": nxt, "rew": rew, "pk": pk, "PD": PD,
        "rexp": rexp, "v0": [rng.randint(-v0max, v0max) for _ in range(ns)], "v0exp": v0exp,
    }
    mdp["render"] = default_render(ns, na, ne, rng, plain=plain_render)
    if dup_action and na >= 2:
        mdp["render"]["avecs"][na - 1] = list(mdp["render"]["avecs"][0])
    return mdp


def union_mdp(parts: list[dict], rng: random.Random, plain_render=False):
    """Disjoint union of table MDPs (same na, ne, PD, rexp, v0exp): one solver instance, many MDPs."""
    na, ne, PD = parts[0]["na"], parts[0]["ne"], parts[0]["PD"]
    nxt, rew, pk, v0, comp = [], [], [], [], []
    off = 0
    for ci, p in enumerate(parts):
        assert (p["na"], p["ne"], p["PD"]) == (na, ne, PD)
        for s in range(p["ns"]):
            nxt.append([[n + off for n in row] for row in p["next"][s]])
            rew.append([list(row) for row in p["rew"][s]])
            pk.append([list(row) for row in p["pk"][s]])
            v0.append(p["v0"][s])
            comp.append(ci)
        off += p["ns"]
    mdp = {
        "ns": off, "na": na, "ne": ne, "next": nxt, "rew": rew, "pk": pk, "PD": PD,
        "rexp": parts[0]["rexp"], "v0": v0, "v0exp": parts[0]["v0exp"], "comp": comp,
    }
    mdp["render"] = default_render(off, na, ne, rng, plain=plain_render)
    return mdp


# ---------------------------------------------------------------------------
# exact reference arithmetic (Fractions) - used ONLY to propose certificates and to pre-screen
# instances for 32-bit range; TLC re-verifies every certificate before relying on it.


def frac_tables(mdp):
    R = [[[Fraction(r, 2 ** mdp["rexp"]) for r in row] for row in sa] for sa in mdp["rew"]]
    P = [[[Fraction(p, mdp["PD"]) for p in row] for row in sa] for sa in mdp["pk"]]
    return R, P


def frac_backup(mdp, V, gamma: Fraction):
    R, P = frac_tables(mdp)
    out, arg = [], []
    for s in range(mdp["ns"]):
        qs = [
            sum(P[s][a][e] * (R[s][a][e] + gamma * V[mdp["next"][s][a][e]])
                for e in range(mdp["ne"]))
            for a in range(mdp["na"])
        ]
        out.append(max(qs))
        arg.append(qs.index(max(qs)))
    return out, arg


def frac_policy_value(mdp, pol, gamma: Fraction):
    """Exact discounted value of a stationary policy (Gaussian elimination over Fractions)."""
    ns = mdp["ns"]
    R, P = frac_tables(mdp)
    A = [[Fraction(0)] * (ns + 1) for _ in range(ns)]
    for s in range(ns):
        a = pol[s]
        A[s][s] += 1
        for e in range(mdp["ne"]):
            A[s][mdp["next"][s][a][e]] -= gamma * P[s][a][e]
            A[s][ns] += P[s][a][e] * R[s][a][e]
    return _solve(A)


def _solve(A):
    n = len(A)
    for c in range(n):
        piv = next(r for r in range(c, n) if A[r][c] != 0)
        A[c], A[piv] = A[piv], A[c]
        inv = 1 / A[c][c]
        A[c] = [x * inv for x in A[c]]
        for r in range(n):
            if r != c and A[r][c] != 0:
                f = A[r][c]
                A[r] = [x - f * y for x, y in zip(A[r], A[c])]
    return [A[r][n] for r in range(n)]


def frac_optimal(mdp, gamma: Fraction, max_rounds=200):
    """Exact optimal value by Howard policy iteration over Fractions."""
    pol = [0] * mdp["ns"]
    for _ in range(max_rounds):
        V = frac_policy_value(mdp, pol, gamma)
        B, arg = frac_backup(mdp, V, gamma)
        if B == V:
            return V, pol
        pol = [arg[s] if B[s] > V[s] else pol[s] for s in range(mdp["ns"])]
    raise RuntimeError("policy iteration did not terminate")
