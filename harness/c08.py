"""C08 - stopping rule, iteration accounting and composability of solve()."""
from __future__ import annotations

import itertools
import random

from . import common as C
from . import gen, solverlib

KF_PVI = "PVI: solve() called again after convergence with clear_value_history_on_convergence=True raises TypeError"


def known_key(job, tr, clause):
    if (job["kind"] == "PVI" and job.get("clear", True) and clause.startswith("exception: TypeError")
            and len(job["calls"]) > 1):
        # only the listed history: an earlier call of this trace reported convergence
        if any(e["e"] == "conv" for e in tr.get("ev", [])):
            return KF_PVI
    return None


def call_seqs(maxk=4, maxcalls=3, total=7):
    out = []
    for n in range(1, maxcalls + 1):
        for cs in itertools.product(range(1, maxk + 1), repeat=n):
            if sum(cs) <= total:
                out.append(list(cs))
    return out


def jobs_for(tier, rng):
    seqs = call_seqs()
    jobs = []
    n_each = 24 if tier == "quick" else 400
    for k in range(n_each):
        # VI / SAVI on unions
        for kind in ("VI", "SAVI"):
            m = gen.union(rng, rng.randint(4, 12), PD=rng.choice([1, 2, 2, 4]), v0max=2,
                          plain=rng.random() < 0.5)
            g = rng.choice([[1, 4], [1, 2], [1, 2], [3, 4]])
            jobs.append({"mdp": m, "kind": kind, "gamma": g, "eps": [rng.choice([1, 1, 3, 8]), rng.choice([0, 1, 2])],
                         "test": rng.choice(["span", "max_diff"]), "calls": rng.choice(seqs),
                         "mbs": rng.choice([3, 7, 64, 1024]), "shuffle": False, "tag": f"{kind}{k}",
                         "eps_as_int": k % 3 == 0})
        m = gen.unichain(rng, v0max=rng.choice([0, 0, 3]))
        jobs.append({"mdp": m, "kind": "RVI", "gamma": [1, 1], "eps": [rng.choice([1, 1, 3]), rng.choice([0, 1, 2, 3])],
                     "calls": rng.choice(seqs), "mbs": rng.choice([2, 1024]), "tag": f"RVI{k}"})
        p = rng.randint(2, 4)
        if rng.random() < 0.5:
            m = gen.ring(rng, p, extra=rng.randint(0, 3), v0max=2)
            g = [1, 1]
        else:
            m = gen.ring(rng, p, extra=rng.randint(0, 2), v0max=1, rmax=2)
            g = [1, 2]
            p = rng.randint(1, 3)
        jobs.append({"mdp": m, "kind": "PVI", "gamma": g, "eps": [rng.choice([1, 1, 2]), rng.choice([0, 1, 2])],
                     "period": p, "clear": rng.random() < 0.5, "calls": rng.choice(seqs),
                     "mbs": rng.choice([2, 1024]), "tag": f"PVI{k}"})
    # another solver instance is constructed between two solve() calls of this one
    for k in range(6 if tier == "quick" else 24):
        kind = ["VI", "SAVI", "RVI", "PVI"][k % 4]
        m = gen.unichain(rng, v0max=2) if kind == "RVI" else (gen.ring(rng, 3, extra=2, v0max=1) if kind == "PVI"
                                                               else gen.union(rng, 5, PD=2, v0max=2))
        job = {"mdp": m, "kind": kind, "gamma": [1, 1] if kind in ("RVI", "PVI") else [1, 2], "eps": [1, 8],
               "test": "span", "calls": [2, 3], "mbs": 5, "shuffle": False,
               "interloper": {"jax_double_precision": k % 2 == 1, "verbose": 3 if k % 3 == 0 else 0, "gamma": 0.5},
               "jdp": False if k % 3 == 1 else None,
               "tag": f"interloper-{kind}{k}"}
        if kind == "PVI":
            job.update({"period": 2, "clear": False})
        jobs.append(job)
    # episodic MDPs: the stopping sweep has a measure of exactly zero, and the greedy policy of the values held after
    # the first call differs from the final one (the policy returned by the last call must be extracted afresh)
    for k in range(6 if tier == "quick" else 40):
        kind = ["VI", "SAVI", "VI"][k % 3]
        m = gen.dag(rng)
        jobs.append({"mdp": m, "kind": kind, "gamma": rng.choice([[1, 2], [3, 4], [1, 1]]) if kind == "VI" else [1, 2],
                     "eps": [1, 6], "test": rng.choice(["span", "max_diff"]), "calls": [1, 30] if k % 3 == 0 else rng.choice([[1, 30], [2, 30], [1, 1, 30]]),
                     "mbs": rng.choice([3, 1024]), "shuffle": False, "tag": f"dag-{kind}{k}", "min_sweeps": 3})
    # solvers of all four families solving at the same time in threads of one process
    for g in range(2 if tier == "quick" else 8):
        group = []
        for k, kind in enumerate(["VI", "SAVI", "RVI", "PVI", "VI", "SAVI"]):
            m = gen.unichain(rng, ns=4, v0max=1, PD=2) if kind == "RVI" else (gen.ring(rng, 3, extra=1, v0max=1) if kind == "PVI"
                                                                          else gen.union(rng, 3, PD=2, v0max=1, plain=True))
            job = {"mdp": m, "kind": kind, "gamma": [1, 1] if kind in ("RVI", "PVI") else [1, 2], "eps": [1, 4], "test": "span",
                   "calls": [3, 4], "mbs": rng.choice([2, 1024]), "shuffle": kind == "SAVI" and k > 2, "seed": 3 + k,
                   "tag": f"threads{g}.{k}-{kind}", "min_sweeps": 2}
            if kind == "PVI":
                job.update({"period": 2, "clear": False})
            group.append(job)
        jobs.append({"group": group, "tag": f"threads{g}"})
    # many solve() calls on one solver
    for k, kind in enumerate(["VI", "SAVI", "RVI", "PVI"]):
        m = gen.unichain(rng, v0max=1, PD=2) if kind == "RVI" else gen.ring(rng, 3, extra=2, v0max=1)
        job = {"mdp": m, "kind": kind, "gamma": [1, 1], "eps": [1, 12], "test": "span", "calls": [1] * 12 + [2],
               "mbs": 2, "shuffle": kind == "SAVI", "seed": 5, "tag": f"manycalls-{kind}"}
        if kind == "PVI":
            job.update({"period": 2, "clear": False})
        jobs.append(job)
    # long runs: integer-valued undiscounted deterministic MDPs never leave the 32-bit range, so hundreds of
    # sweeps (and several calls) can be judged exactly
    for k in range(4 if tier == "quick" else 16):
        kind = ["VI", "PVI", "SAVI", "RVI"][k % 4]
        if kind == "RVI":
            m = gen.unichain(rng, ns=3, PD=2, rmax=2)
            m["pk"] = [[[1, 1] if len(row) == 2 else row for row in sa] for sa in m["pk"]]
            calls = [18, 3]
        else:
            m = gen.ring(rng, rng.randint(2, 5), extra=rng.randint(0, 4), v0max=2, rmax=3)
            calls = rng.choice([[150], [64, 65], [100, 1, 30]])
        job = {"mdp": m, "kind": kind, "gamma": [1, 1], "eps": [1, 10], "test": "span", "calls": calls,
               "mbs": rng.choice([2, 3, 1024]), "shuffle": kind == "SAVI", "seed": k, "tag": f"long-{kind}{k}"}
        if kind == "PVI":
            job.update({"period": rng.randint(2, 4), "clear": False})
        jobs.append(job)
    return jobs


def run(tier):
    rep = C.Report("C08", tier)
    rng = random.Random(C.seed() + 8)
    rep.rule = ("design: TLC explores the solve-loop machine for ALL measure sequences (Below subsets) x all call "
                "sequences with the merged-call self-composition; binding: call sequences from the same set executed "
                "on real VI/SAVI/RVI/PVI solvers, every begin/sweep/converged/end event judged by SolverTrace.tla "
                "(limit, stop at first below-threshold sweep, count = sweeps, V_n = Backup^n(V_0)). distinct = "
                "distinct (kind, mdp, config, call sequence); non-trivial = at least one sweep")
    res = C.run_tlc("SolveLoop", "SolveLoop.cfg" if tier == "quick" else "SolveLoopThorough.cfg", coverage=True)
    C.tlc_must_be_clean(res, "SolveLoop")
    rep.add_tlc("SolveLoop (all measure sequences x call sequences)", res)
    if res.invariant_violated:
        rep.violation("spec:SolveLoop " + ",".join(res.violated), {"tlc": res.out[-3000:]})
    jobs = jobs_for(tier, rng)
    # the default order of a user script: the process does not switch 64-bit mode on itself; the problem (and its
    # tables) exist before the solver turns it on.  Dyadic tables are exact in single precision too, so every sweep
    # must still be the exact backup, in float64.
    late = []
    for k in range(5 if tier == "quick" else 25):
        kind = ["VI", "SAVI", "RVI", "PVI", "PI"][k % 5]
        m = gen.unichain(rng, v0max=2, PD=2) if kind == "RVI" else (gen.ring(rng, 3, extra=2, v0max=1) if kind == "PVI"
                                                                      else gen.union(rng, 4, PD=rng.choice([2, 4]), v0max=2))
        job = {"mdp": m, "kind": kind, "gamma": [1, 1] if kind in ("RVI", "PVI") else rng.choice([[1, 2], [1, 4], [3, 4]]),
               "eps": [1, 3], "test": "span", "calls": [2, 3], "mbs": rng.choice([3, 1024]), "shuffle": False,
               "tag": f"late-x64-{kind}{k}"}
        if kind == "PVI":
            job.update({"period": 2, "clear": False})
        if kind == "PI":
            job.update({"max_eval_iter": 3, "reset": False})
        # the problem's tables are built in SINGLE precision here: keep to vectors single precision can hold (the
        # renderer's tiny / huge float action units would collapse - a property of the rendering, not of the solver)
        m["render"].update({"adiv": 1, "aoffset": 0, "sdiv": 1})
        late.append(job)
    lj, lt = solverlib.run_jobs([j for j in late if j["kind"] != "PI"], late_x64=True)
    solverlib.judge(rep, lj, lt, label="C08", known_key=known_key)
    lj, lt = solverlib.run_jobs([j for j in late if j["kind"] == "PI"], late_x64=True)
    solverlib.judge(rep, lj, lt, module="PITrace", label="C08")
    j2, traces = solverlib.run_jobs(jobs)
    solverlib.judge(rep, j2, traces, label="C08", known_key=known_key)
    shown = set()
    for j, t in zip(j2, traces):
        if "ev" in t and j["kind"] not in shown:
            shown.add(j["kind"])
            rep.sample(solverlib.sample_of(j, t, 6))
    conv = sum(1 for t in traces if any(e["e"] == "conv" for e in t.get("ev", [])))
    multi = sum(1 for j in j2 if len(j["calls"]) > 1)
    rep.extra.update({"traces_with_convergence": conv, "traces_with_several_calls": multi})
    rep.assumptions = ["dyadic MDP families; depth bounded by 32-bit fixed point (traces truncated beyond it)",
                       "policy iteration's loop is judged by PITrace (C05)"]
    return rep.finish()
