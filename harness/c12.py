"""C12 - checkpoint cadence and retention follow frequency and max_checkpoints."""
from __future__ import annotations

import random

from . import ckptlib, common as C
from .c09 import report
from .ckpt_scen import BIG, base_scenario, problems, restore_op

KF = "restore(step older than the newest) into the SAME directory, then solve(): saves whose step is not newer than the newest existing step are silently skipped, so the last iteration of the call is not on disk"


def scenarios(tier, rng):
    P = problems(rng)
    out = []
    combos = [("VI", "forest"), ("PI", "forest"), ("RVI", "tab_unichain"), ("PVI", "forest12"), ("SAVI", "forest"),
              ("VI", "tabular")]
    n = 4 if tier == "quick" else 14
    for kind, pname in combos:
        pspec, full = P[pname]
        for j in range(n):
            freq = rng.choice([0, 1, 2, 3, 4]) if j else 0
            keep = rng.choice([1, 2, 3])
            isasync = rng.random() < 0.5
            calls = rng.choice([[BIG], [3], [4], [6], [2, 3], [1, 1, 4], [5, BIG], [2, 2, BIG], [7, 1]])
            ops = [{"op": "new"}]
            for k in calls:
                ops += [{"op": "solve", "k": k}]
            ops += [{"op": "wait"}, {"op": "list", "dir": "@A"}]
            gens = [{"ops": ops}]
            r = rng.random()
            if freq > 0 and r < 0.3:
                # continue in the same directory from the latest step
                gens.append({"ops": [{"op": "list", "dir": "@A"}, restore_op(full), {"op": "solve", "k": rng.choice([1, 2, 5])},
                                     {"op": "wait"}, {"op": "list", "dir": "@A"}]})
            elif freq > 0 and r < 0.55 and full:
                # continue into a NEW directory with a new cadence
                nf, nm = rng.choice([1, 2, 3]), rng.choice([1, 2])
                gens.append({"ops": [{"op": "list", "dir": "@A"},
                                     restore_op(full, new_dir="@B", freq=nf, max=nm, **{"async": rng.random() < 0.5}),
                                     {"op": "solve", "k": rng.choice([2, 3, 5])}, {"op": "wait"},
                                     {"op": "list", "dir": "@B"}, {"op": "list", "dir": "@A"}], "check_unchanged_A": True})
            out.append(base_scenario(f"{kind}-{pname}-{j}-f{freq}m{keep}{'a' if isasync else 's'}-{'_'.join(map(str, calls))}",
                                     kind, pname, pspec, full, freq, keep, isasync, gens))
    # convergence at an iteration that is a multiple of the frequency (f = 1 makes every iteration one)
    for kind, pname in combos:
        pspec, full = P[pname]
        out.append(base_scenario(f"{kind}-{pname}-f1-to-convergence", kind, pname, pspec, full, 1, 2, rng.random() < 0.5,
                                 [{"ops": [{"op": "new"}, {"op": "solve", "k": BIG}, {"op": "wait"}, {"op": "list", "dir": "@A"}]}]))
    # the iteration limit is exactly the iteration at which the run converges (and one less / one more), cadences that
    # divide that iteration or not
    for kind, pname in (("VI", "forest"), ("RVI", "forest"), ("PI", "forest"), ("SAVI", "forest")):
        pspec, full = P[pname]
        for lim in ("@CONV", "@CONV-1", "@CONV+1"):
            for freq in ((1, 2) if tier == "quick" else (1, 2, 3, 4)):
                out.append(base_scenario(f"{kind}-{pname}-limit{lim.strip('@')}-f{freq}", kind, pname, pspec, full, freq, 2,
                                         rng.random() < 0.5,
                                         [{"ops": [{"op": "new"}, {"op": "solve", "k": lim}, {"op": "wait"}, {"op": "list", "dir": "@A"}]},
                                          {"ops": [{"op": "list", "dir": "@A"}, restore_op(full), {"op": "solve", "k": 2},
                                                   {"op": "wait"}, {"op": "list", "dir": "@A"}]}]))
    # an unrelated, verbose solver instance is constructed before the run (logging is process-global state)
    for kind, pname, keep in (("VI", "forest", 3), ("PI", "forest", 2), ("VI", "tabular", 2)):
        pspec, full = P[pname]
        out.append(base_scenario(f"{kind}-{pname}-verbose-interloper-m{keep}", kind, pname, pspec, full, 1, keep, True,
                                 [{"ops": [{"op": "new"}, {"op": "interloper", "verbose": 4}, {"op": "solve", "k": 7},
                                           {"op": "wait"}, {"op": "list", "dir": "@A"}]}]))
    # directory names with spaces and trailing slashes
    for kind, pname in (("VI", "forest"), ("PI", "tabular")):
        pspec, full = P[pname]
        out.append(base_scenario(f"{kind}-{pname}-dirname-with-space", kind, pname, pspec, full, 2, 2, True,
                                 [{"ops": [{"op": "new"}, {"op": "solve", "k": 5}, {"op": "wait"}, {"op": "list", "dir": "@A"}]},
                                  {"ops": [{"op": "list", "dir": "@A"}, restore_op(full), {"op": "solve", "k": 3},
                                           {"op": "wait"}, {"op": "list", "dir": "@A"}]}], dirstyle="space_slash"))
    # more than nine retained checkpoints, steps with one and two digits
    pspec, full = P["tabular"]
    out.append(base_scenario("VI-tabular-keep12-f1", "VI", "tabular", pspec, full, 1, 12, False,
                             [{"ops": [{"op": "new"}, {"op": "solve", "k": 15}, {"op": "wait"}, {"op": "list", "dir": "@A"}]},
                              {"ops": [{"op": "list", "dir": "@A"}, restore_op(full), {"op": "solve", "k": 3},
                                       {"op": "wait"}, {"op": "list", "dir": "@A"}]}]))
    # another solver (restore(), or a second instance loading the latest step) is attached to the directory while the
    # writer's final asynchronous save is still in flight (file system slowed down; no wait in between): the writer's
    # pending step must still be committed with its own content
    for kind, pname, how in (("VI", "forest", "restore"), ("PI", "tabular", "load"), ("RVI", "forest", "load")):
        pspec, full = P[pname]
        second = restore_op(full) if how == "restore" else {"op": "load", "dir": "@A"}
        out.append(base_scenario(f"{kind}-{pname}-{how}-while-save-in-flight", kind, pname, pspec, full, 1, 3, True,
                                 [{"ops": [{"op": "new"}, {"op": "solve", "k": 5}, {"op": "list", "dir": "@A"}, second,
                                           {"op": "wait"}, {"op": "list", "dir": "@A"}]}], fs_delay_us=150000))
    # a hand-written problem (no configuration of its own) solved with a configuration OBJECT whose problem field still
    # describes a shipped problem: the run is not reconstructible from configuration, so no configuration file may
    # appear, restore() must fail with the documented error and load_checkpoint() must work
    forest_spec = P["forest"][0]
    for kind, pname in (("VI", "tabular"), ("RVI", "tab_unichain")):
        pspec, full = P[pname]
        out.append(base_scenario(f"{kind}-{pname}-instance-plus-foreign-config", kind, pname, pspec, False, 1, 2, False,
                                 [{"ops": [{"op": "new", "config_with_other_problem": forest_spec}, {"op": "solve", "k": 3},
                                           {"op": "wait"}, {"op": "list", "dir": "@A"}]},
                                  {"ops": [{"op": "list", "dir": "@A"}, {"op": "restore", "dir": "@A"}]},
                                  {"ops": [{"op": "list", "dir": "@A"}, {"op": "load", "dir": "@A"}, {"op": "solve", "k": 2},
                                           {"op": "wait"}, {"op": "list", "dir": "@A"}]}]))
    # default directory (checkpoint_dir=None -> checkpoints/<problem>/<date>/<time>/ under the working directory) through
    # the configuration-object route, and the SAME configuration object reused for a second solver a little later
    # (a parameter sweep): each solver gets its own directory and its own cadence/retention
    for kind, pname in (("VI", "forest"), ("RVI", "forest")):
        pspec, full = P[pname]
        out.append(base_scenario(f"{kind}-{pname}-default-dir-config-object-reused", kind, pname, pspec, full, 2, 2, False,
                                 [{"ops": [{"op": "new", "via_config": "fresh"}, {"op": "solve", "k": 4}, {"op": "wait"},
                                           {"op": "list", "dir": "@SOLVER"}, {"op": "sleep", "s": 1.2},
                                           {"op": "new", "via_config": "reuse", "kw": {"max_batch_size": 32}},
                                           {"op": "solve", "k": 3}, {"op": "wait"}, {"op": "list", "dir": "@SOLVER"}]}],
                                 default_dir=True))
    # the listed finding: restore an OLDER explicit step into the same directory, then one more iteration
    pspec, full = P["forest"]
    for kind in ("VI", "PI"):
        out.append(base_scenario(f"{kind}-forest-older-same-dir", kind, "forest", pspec, True, 2, 3, False,
                                 [{"ops": [{"op": "new"}, {"op": "solve", "k": 6}, {"op": "wait"}, {"op": "list", "dir": "@A"}]},
                                  {"ops": [{"op": "list", "dir": "@A"}, restore_op(True, step=2), {"op": "solve", "k": 1},
                                           {"op": "wait"}, {"op": "list", "dir": "@A"}]}]))
    return out


def run(tier):
    rep = C.Report("C12", tier)
    rng = random.Random(C.seed() + 12)
    rep.rule = ("design: TLC explores the Checkpoint model over frequency 0..3 x retention x sync/async x call sequences "
                "(incl. restores into the same directory and explicit older steps) with the cadence/retention, "
                "last-iteration-saved and nothing-written-when-disabled invariants; binding: real runs of all five solvers "
                "with sequences of solve() calls, restores into the same or a new directory with a new cadence, and "
                "frequency 0; after wait_until_finished the directory listing, every save call's label/content and the "
                "configuration file are judged by CheckpointTrace.tla. distinct = distinct scenario")
    # several directories: which one a solver saves to, which one restore() reads, backup copies, default directories
    res = C.run_tlc("CheckpointDirs", "CheckpointDirsSmall.cfg" if tier == "quick" else "CheckpointDirs.cfg", coverage=True)
    C.tlc_must_be_clean(res, "CheckpointDirs")
    rep.add_tlc("CheckpointDirs (directories as sets of committed steps: new / default / copy / restore with and without a new directory)", res)
    if res.invariant_violated:
        rep.violation("spec:CheckpointDirs " + ",".join(res.violated), {"tlc": res.out[-3000:]})
    for cfg in ("Checkpoint.cfg", "CheckpointCalls.cfg", "CheckpointExplicit.cfg"):
        res = C.run_tlc("Checkpoint", cfg, coverage=True)
        C.tlc_must_be_clean(res, "Checkpoint " + cfg)
        rep.add_tlc(f"Checkpoint ({cfg})", res)
        if res.invariant_violated:
            rep.violation("spec:Checkpoint " + ",".join(res.violated), {"tlc": res.out[-3000:]})
    # the known finding must still be REACHABLE in the faithful model (else the model has drifted)
    res = C.run_tlc("Checkpoint", "CheckpointExplicitReachKF.cfg")
    C.tlc_must_be_clean(res, "Checkpoint reach KF")
    rep.add_tlc("Checkpoint (reach the known finding: LastIterationSaved without the KF disjunct)", res)
    if not res.invariant_violated:
        rep.spec_drift("the model no longer reaches the restore-older-into-same-directory finding")
    scs = scenarios(tier, rng)
    results = ckptlib.run_all(scs)
    for sc, tr, at, prop, clause, desc in report(rep, results, "C12"):
        key = KF if clause.startswith("KF:") else f"{prop} {clause} :: {desc}"
        rep.violation(key, {"scenario": sc, "clause": clause, "event_index": at,
                            "event": tr["ev"][at - 1] if 0 < at <= len(tr["ev"]) else None})
    for sc, tr, _ in results[:3]:
        rep.sample({"scenario": sc["name"],
                    "listings": [{"dir": e["dir"], "final": e["fin"], "quiescent": e["quiescent"]} for e in tr["ev"] if e["e"] == "listing"],
                    "save_calls": [e["step"] for e in tr["ev"] if e["e"] == "save_call"]})
    rep.extra["scenarios_with_frequency_0"] = sum(1 for s in scs if s["freq"] == 0)
    rep.assumptions = ["listings are taken after wait_until_finished()", "Orbax 0.12.4 as the environment"]
    rep.extra["machinery_retries"] = list(ckptlib.RETRIES)
    rep.extra["scenarios_skipped_reference_did_not_converge"] = list(ckptlib.SKIPPED)
    return rep.finish()
