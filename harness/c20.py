"""C20 - configuration contract: valid parameters work by every route, invalid ones are rejected."""
from __future__ import annotations

import concurrent.futures as cf
import json
import random

from . import common as C

USED = {"VI": {"test"}, "SAVI": {"test"}, "PI": {"test", "evaliter"}, "PVI": {"period"}, "RVI": set()}
SOLVER_SPECIFIC = {"test", "evaliter", "period"}


def effective(kind, c):
    d = {k: v for k, v in c.items() if k not in SOLVER_SPECIFIC or k in USED[kind]}
    if d["problem"] == "forest":
        for k in ("issue", "m", "L", "Q"):
            d.pop(k)
    else:
        for k in ("S", "p"):
            d.pop(k)
    return d


def run(tier):
    rep = C.Report("C20", tier)
    rng = random.Random(C.seed() + 20)
    rep.rule = ("design: ConfigContract.tla states the documented domain of every parameter as a predicate over boundary "
                "levels and TLC checks the contract machine (rejected never solves, float64 when requested, both verdicts "
                "exercised at every boundary); spec -> code: TLC emits the boundary grid (one-at-a-time and selected pairs "
                "around a valid baseline, 5 solver kinds), every configuration is constructed on the real code by keyword "
                "arguments and by configuration object alone, valid ones also by reloading the saved YAML and in both "
                "creation orders in fresh processes, and is solved briefly; ConfigTrace.tla compares verdict, exception "
                "type, solve outcome, dtype and cross-route equality of values. distinct = distinct (kind, route, "
                "effective configuration, order)")
    res = C.run_tlc("ConfigContract", coverage=True)
    C.tlc_must_be_clean(res, "ConfigContract")
    rep.add_tlc("ConfigContract (contract machine over the boundary grid)", res)
    if res.invariant_violated:
        rep.violation("spec:ConfigContract " + ",".join(res.violated), {"tlc": res.out[-3000:]})
    emit = C.run_tlc("ConfigEmit", workers=1)
    C.tlc_must_be_clean(emit, "ConfigEmit")
    grid = emit.printed("GRID")
    if not grid:
        raise C.MachineryError("ConfigEmit produced no grid")
    cases, seen = [], set()
    gid = 0
    for _, kind, c, exp in grid:
        eff = effective(kind, c)
        key = json.dumps([kind, eff], sort_keys=True)
        if key in seen:
            continue
        seen.add(key)
        gid += 1
        routes = ["kwargs", "config"]
        if exp == "ok" and c["freq"] >= 0 and (tier == "thorough" or gid % 3 == 0):
            routes.append("yaml")
        if exp == "ok" and (tier == "thorough" or gid % 4 == 1):
            routes.append("reuse")
        for r in routes:
            cases.append({"kind": kind, "route": r, "c": c, "order": "solver_first", "gid": gid, "expected": exp})
    if tier == "quick":
        # keep every rejected case (cheap) and a seeded sample of the accepted GROUPS (all routes of a configuration
        # stay together, so that every route has its keyword-argument reference)
        gids = sorted({x["gid"] for x in cases if x["expected"] == "ok"})
        multi = [g for g in gids if sum(1 for x in cases if x["gid"] == g) > 2]
        keepg = set(rng.sample(gids, min(len(gids), 45))) | set(rng.sample(multi, min(len(multi), 25)))
        # accepted configurations with typed or extreme levels (Python ints for gamma / epsilon, epsilon far from 1,
        # gamma 0 or 1) are always kept by their keyword-argument route: each solver class has code of its own for them
        special = {x["gid"] for x in cases if x["expected"] == "ok" and (
            str(x["c"]["gamma"]).startswith("int_") or str(x["c"]["eps"]).startswith("int_")
            or x["c"]["eps"] in ("tiny", "twohundred", "million") or x["c"]["gamma"] in ("zero", "one"))}
        cases = [x for x in cases if x["expected"] != "ok" or x["gid"] in keepg
                 or (x["gid"] in special and x["route"] == "kwargs")]
    # creation order: problem created BEFORE 64-bit mode is enabled, fresh process each
    order_cases = []
    for kind in ("VI", "PI", "RVI", "PVI", "SAVI"):
        base = next(c for _, k, c, e in grid if k == kind and e == "ok" and c["eps"] == "small" and c["problem"] == "forest"
                    and c["S"] == 4 and c["p"] == "tenth" and c["mbs"] == 64 and c["verbose"] == 0
                    and c["gamma"] == ("one" if kind == "RVI" else "mid") and c["test"] == "span"
                    and c["freq"] == 0 and c["keep"] == 1)
        gid += 1
        order_cases.append([{"kind": kind, "route": "kwargs", "c": base, "order": "solver_first", "gid": gid, "expected": "ok"}])
        order_cases.append([{"kind": kind, "route": "kwargs", "c": base, "order": "problem_first", "gid": gid, "expected": "ok"}])
    nproc = min(C.NCPU, 14)
    chunks = [cases[i::nproc] for i in range(nproc)]
    obs = []
    with C.Scratch("verif-c20-") as d:
        def work(args):
            i, chunk, x64 = args
            out = d / f"o{i}.json"
            p = C.run_python(["-m", "harness.workers.config_worker"],
                             input_json={"cases": chunk, "out": str(out), "x64_first": x64}, cwd=str(C.VERIF),
                             timeout=3000)
            if p.returncode != 0:
                raise C.MachineryError("config worker failed: " + p.stderr[-2000:])
            return json.loads(out.read_text())
        tasks = [(i, ch, True) for i, ch in enumerate(chunks)]
        tasks += [(100 + j, oc, oc[0]["order"] == "solver_first") for j, oc in enumerate(order_cases)]
        with cf.ThreadPoolExecutor(nproc) as ex:
            for part in ex.map(work, tasks):
                obs += part
    # cross-route / cross-order agreement: same group id => same values
    ref = {}
    for o in obs:
        if o["route"] == "kwargs" and o["order"] == "solver_first" and o["solve"] == "ok":
            ref[o["gid"]] = o
    payload = []
    for o in obs:
        r = ref.get(o["gid"])
        # values are compared only between runs that performed the same three sweeps (a run that converged
        # earlier legitimately sweeps once more when solve() is called again on the reloaded solver)
        comparable = (o["solve"] == "ok" and r is not None and r.get("iteration") == 3
                      and (o.get("iteration") == 3 or o["route"] == "reuse"))
        o["sameasref"] = (not comparable) or o["digest"] == r["digest"]
        payload.append({"kind": o["kind"], "c": o["c"], "construct": o["construct"], "solve": o["solve"],
                        "dtype": o["dtype"], "sameasref": o["sameasref"], "bok": o.get("bok", True)})
    acc, rej, drift, results = C.judge_traces("ConfigTrace", payload, chunk=2000, what="C20")
    for r in results:
        rep.add_tlc("ConfigTrace", r)
    rep.traces = len(obs)
    for i, o in enumerate(obs):
        eff = effective(o["kind"], o["c"])
        rep.case([o["kind"], o["route"], eff, o["order"]], nontrivial=True)
        if i in rej:
            clause = rej[i][0][0]
            key = known_key(o, clause)
            rep.violation(key or f"C20 {clause} :: kind={o['kind']} route={o['route']} order={o['order']} cfg={json.dumps(eff, sort_keys=True)} "
                          f"construct={o['construct']} solve={o['solve']} dtype={o['dtype']}",
                          {"observation": o, "clause": clause})
    rep.extra.update({"constructions": len(obs),
                      "accepted": sum(1 for o in obs if o["construct"] == "ok"),
                      "rejected": sum(1 for o in obs if o["construct"] in ("ValueError", "TypeError")),
                      "by_route": {r: sum(1 for o in obs if o["route"] == r) for r in ("kwargs", "config", "yaml", "reuse")},
                      "creation_order_cases": len(order_cases)})
    for o in obs[:: max(1, len(obs) // 5)][:5]:
        rep.sample({"kind": o["kind"], "route": o["route"], "order": o["order"], "cfg": effective(o["kind"], o["c"]),
                    "construct": o["construct"], "solve": o["solve"], "dtype": o["dtype"]})
    rep.assumptions = ["levels are mapped to the concrete values listed in harness/workers/config_worker.py",
                       "Forest (and De Moor for issue policy / useful life) as the problem under every solver"]
    return rep.finish()


KF_ORDER = "problem created before the solver in a fresh process (64-bit mode not yet enabled): results differ from the solver-first order"


def known_key(o, clause):
    if o["order"] == "problem_first" and ("float64" in clause or "identically" in clause):
        return KF_ORDER
    return None
