"""C19 - range spaces enumerate the integer box and the index function inverts them."""
from __future__ import annotations

import itertools
import json
import random

from . import common as C


def boxes(tier, rng):
    out = []
    lo, hi = (-2, 3) if tier == "quick" else (-2, 3)
    for dim in (1, 2):
        for mins in itertools.product(range(lo, hi + 1), repeat=dim):
            for maxs in itertools.product(range(lo, hi + 1), repeat=dim):
                if all(a <= b for a, b in zip(mins, maxs)):
                    out.append([list(mins), list(maxs)])
    l3, h3 = (-1, 1) if tier == "quick" else (-2, 2)
    d3 = []
    for mins in itertools.product(range(l3, h3 + 1), repeat=3):
        for maxs in itertools.product(range(l3, h3 + 1), repeat=3):
            if all(a <= b for a, b in zip(mins, maxs)):
                d3.append([list(mins), list(maxs)])
    out += d3 if tier == "thorough" else rng.sample(d3, 80)
    # dimension 4 with widths <= 3
    d4 = []
    for mins in itertools.product(range(-1, 2), repeat=4):
        for w in itertools.product(range(0, 3), repeat=4):
            d4.append([list(mins), [m + x for m, x in zip(mins, w)]])
    out += rng.sample(d4, 40 if tier == "quick" else 600)
    # bounds at and around integer type limits (narrow boxes far from the origin, and wide 1-dimensional ones)
    for b in (127, 128, 255, 256, 32767, 32768, 65535, 65536, 2 ** 31 - 6):
        out.append([[b - 2], [b + 1]])
        out.append([[-b - 1], [-b + 2]])
        out.append([[0, b - 1], [1, b + 1]])
    for b in (127, 128, 129, 255, 256, 257):
        out.append([[0], [b]])
        out.append([[-b], [0]])
        out.append([[0, 0], [1, b]])
    # the caller's bounds as Python lists and as numpy arrays of narrow integer types whose WIDTH does not fit the type
    for how, lo, hi in (("i8", -100, 100), ("u8", 0, 255), ("i8", -128, 127), ("i16", -20000, 20000), ("u16", 0, 40000),
                        ("i64", -3, 3), ("list", -2, 2)):
        out.append([[lo], [hi], how])
        if hi - lo < 1000:
            out.append([[0, lo], [1, hi], how])
    return out


def big_boxes(tier, rng):
    """Boxes too large to list in a trace (observed on sampled rows and vectors): sizes around 2^16, 2^18, 2^20, 2^21."""
    shapes = [[257, 257], [1025, 1025], [101, 102, 103]]
    if tier == "thorough":
        shapes += [[513, 513], [2049, 1025], [2, 1048577 // 2 + 1], [1048577], [33, 33, 33, 33], [129, 129, 129],
                   [17, 17, 17, 17, 17]]
    out = []
    for sh in shapes:
        mins = [rng.randint(-3, 3) for _ in sh]
        out.append([mins, [m + w - 1 for m, w in zip(mins, sh)], rng.randrange(10 ** 6)])
    return out


def run(tier):
    rep = C.Report("C19", tier)
    rng = random.Random(C.seed())
    rep.rule = ("every box of dimension 1-2 with bounds in -2..3 (dimension 3: bounds -1..1 sampled / -2..2 all; "
                "dimension 4 sampled, widths <= 3; a few boxes of 2^16..2^21 rows on sampled rows and vectors); per box every vector of the box enlarged by one unit is "
                "queried; distinct = distinct boxes; non-trivial = some non-zero lower bound or a zero-width dimension")
    res = C.run_tlc("RangeSpace", "RangeSpace.cfg" if tier == "quick" else "RangeSpaceThorough.cfg", coverage=True)
    C.tlc_must_be_clean(res, "RangeSpace exhaustive")
    rep.add_tlc("RangeSpace (exhaustive boxes)", res)
    if res.invariant_violated:
        rep.violation("spec:RangeSpace-invariant", {"tlc": res.out[-3000:]})
    bx = boxes(tier, rng)
    nproc = min(C.NCPU, 12)
    chunks = [bx[i::nproc] for i in range(nproc)]
    for i, b in enumerate(big_boxes(tier, rng)):
        chunks[i % nproc].insert(0, b)
    import concurrent.futures as cf
    with C.Scratch("verif-c19-") as d:
        def work(i):
            out = d / f"obs{i}.json"
            p = C.run_python(["-m", "harness.workers.rangespace_worker"],
                             input_json={"boxes": chunks[i], "out": str(out)}, cwd=str(C.VERIF))
            if p.returncode != 0:
                raise C.MachineryError("rangespace worker failed: " + p.stderr[-2000:])
            return json.loads(out.read_text())
        with cf.ThreadPoolExecutor(nproc) as ex:
            obs = [o for part in ex.map(work, range(nproc)) for o in part]
    acc, rej, drift, results = C.judge_traces("RangeSpaceTrace", obs, chunk=3000, what="C19")
    for r in results:
        rep.add_tlc("RangeSpaceTrace", r)
    rep.traces = len(obs)
    nq = 0
    for i, o in enumerate(obs):
        nq += len(o["queries"])
        rep.case([o["mins"], o["maxs"]],
                 nontrivial=any(m != 0 for m in o["mins"]) or any(a == b for a, b in zip(o["mins"], o["maxs"])))
        if i in rej:
            clause = rej[i][0]
            kind = "listed" if "listed vector" in clause[0] else ("outside" if "outside" in clause[0] else "space")
            rep.violation(f"range space {kind}: mins={o['mins']} maxs={o['maxs']}",
                          {"mins": o["mins"], "maxs": o["maxs"], "clause": clause,
                           "replay": "create_range_space(mins, maxs); index_fn(vector)"})
    for o in obs[:: max(1, len(obs) // 4)][:4]:
        rep.sample({"mins": o["mins"], "maxs": o["maxs"], "n_rows": o["nrows"],
                    "first_queries": o["queries"][:3], "first_idx": o["idx"][:3]})
    rep.extra["index_queries"] = nq
    rep.extra["large_boxes_observed_on_sampled_rows"] = [[o["mins"], o["maxs"], o["nrows"]] for o in obs if o["sampled"]]
    rep.exhaustive = True
    rep.assumptions = ["TLC; the projection in harness/workers/rangespace_worker.py (vmapped index_fn)"]
    return rep.finish()
