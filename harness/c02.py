"""C02 - one sweep is the exact Bellman optimality backup; the extracted policy is greedy."""
from __future__ import annotations

import random

from . import common as C
from . import gen, solverlib
from . import tabular as T

GAMMAS = [[1, 4], [1, 2], [3, 4], [1, 1], [0, 1]]


def jobs_for(tier, rng):
    jobs = []
    n_inst = 32 if tier == "quick" else 600
    n_inj = 6 if tier == "quick" else 10
    for k in range(n_inst):
        m = gen.union(rng, rng.randint(8, 30), rmax=rng.choice([3, 3, 8]), v0max=2,
                      dup=rng.random() < 0.3, plain=rng.random() < 0.2)
        if rng.random() < 0.3:
            m["rexp"] = rng.choice([1, 3])      # rewards scaled by 2^-k (exact)
        ns = m["ns"]
        mbs = rng.choice([1, 2, 3, 5, 7, max(1, ns - 1), ns, ns + 3, 64, 1024])
        if mbs < 3 and ns > 60:
            mbs = 5
        g = GAMMAS[k % len(GAMMAS)]
        jobs.append({"mdp": m, "kind": "VI", "gamma": g, "eps": [1, 6], "test": rng.choice(["span", "max_diff"]),
                     "calls": [1], "mbs": mbs, "gamma_as_int": k % 2 == 0, "eps_as_int": False,
                     "injects": [{"v": gen.rand_values(rng, ns, vmax=rng.choice([4, 9, 40]))}
                                 for _ in range(n_inj)],
                     "tag": f"inst{k}"})
    # event probabilities that do not quite sum to one (a truncated distribution): the backup must use the
    # problem's probabilities as they are.  The deficit must be small (about 1e-4) to look like truncation, hence
    # PD = 16384; 32-bit model integers then leave room for one sweep from zero with rewards in {-1, 0, 1}
    # (gamma = 1 keeps the denominator at PD; rewards in {0, 1} keep values and span within [0, 1]).
    for k in range(6 if tier == "quick" else 24):
        m = T.random_mdp(rng, ns=rng.randint(4, 16), na=2, ne=rng.choice([1, 2, 3]), PD=16384, rmax=1, v0max=0,
                         plain_render=True)
        if m["ne"] == 1:
            m["pk"] = [[[16384] for _ in sa] for sa in m["pk"]]
        m["rew"] = [[[abs(r) for r in row] for row in sa] for sa in m["rew"]]      # values and span stay within [0, 1]
        for _ in range(rng.randint(2, 6)):
            s_, a_ = rng.randrange(m["ns"]), rng.randrange(m["na"])
            e_ = max(range(m["ne"]), key=lambda x: m["pk"][s_][a_][x])
            m["pk"][s_][a_][e_] -= rng.choice([1, 1, 2])        # deficit of 1/16384 or 2/16384 (< 1e-4 / > 1e-4)
        jobs.append({"mdp": m, "kind": "VI", "gamma": [1, 1], "eps": [1, 1], "test": "span", "calls": [1], "mbs": 1024,
                     "tag": f"deficient{k}", "min_sweeps": 1})
    # a rare catastrophic event (probability 2^-127 - below the single-precision range - times a reward of 2^127):
    # the expectation must weigh it like any other event
    for k in range(6 if tier == "quick" else 60):
        m = gen.union(rng, rng.randint(2, 6), PD=rng.choice([1, 2, 4]), rmax=3, v0max=2, plain=rng.random() < 0.5, chain=False)
        gen.fix_dups(m)
        gen.add_rare(rng, m, pexp=rng.choice([127, 127, 200, 60]))
        jobs.append({"mdp": m, "kind": "VI", "gamma": rng.choice(GAMMAS[:3]), "eps": [1, 4], "test": rng.choice(["span", "max_diff"]),
                     "calls": [2], "mbs": rng.choice([3, 1024]),
                     "injects": [{"v": gen.rand_values(rng, m["ns"], vmax=6)} for _ in range(2)], "tag": f"rare{k}",
                     "min_sweeps": 1})
    # events of probability exactly zero whose successor lies outside the state space (index beyond the last state)
    for k in range(5 if tier == "quick" else 40):
        m = T.random_mdp(rng, ns=rng.randint(3, 9), na=2, ne=3, PD=rng.choice([2, 4]), rmax=3, v0max=2, plain_render=True)
        for sa in m["pk"]:
            for row in sa:
                if 0 not in row:                                  # make sure impossible events occur
                    j = rng.randrange(3)
                    row[(j + 1) % 3] += row[j]
                    row[j] = 0
        m["render"]["wild_zero_prob"] = True
        jobs.append({"mdp": m, "kind": rng.choice(["VI", "VI", "SAVI"]), "gamma": rng.choice(GAMMAS[:3]), "eps": [1, 4],
                     "test": rng.choice(["span", "max_diff"]), "calls": [3], "mbs": rng.choice([2, 1024]), "shuffle": False,
                     "injects": [{"v": gen.rand_values(rng, m["ns"], vmax=6)} for _ in range(2)], "tag": f"wildzero{k}",
                     "min_sweeps": 1})
    # deterministic problems whose probability function returns INTEGER-typed indicators, rewards in quarter units
    for k in range(4 if tier == "quick" else 30):
        m = T.random_mdp(rng, ns=rng.randint(3, 9), na=rng.randint(2, 3), ne=rng.choice([1, 2, 3]), PD=1, rmax=7, rexp=2, v0max=2,
                         plain_render=rng.random() < 0.5)
        m["render"]["prob_int"] = True
        m["render"]["prob_as_array"] = False
        gen.fix_dups(m)
        jobs.append({"mdp": m, "kind": rng.choice(["VI", "VI", "SAVI"]), "gamma": rng.choice(GAMMAS[:3]), "eps": [1, 4],
                     "test": rng.choice(["span", "max_diff"]), "calls": [2], "mbs": rng.choice([2, 1024]), "shuffle": False,
                     "injects": [{"v": gen.rand_values(rng, m["ns"], vmax=6)} for _ in range(2)], "tag": f"intprob{k}",
                     "min_sweeps": 1})
    # coarse sub-stochastic rows (a problem may leave out events on purpose), including single-event problems whose
    # only event has an action-dependent probability below one
    for k in range(6 if tier == "quick" else 40):
        ne = rng.choice([1, 1, 2])
        m = T.random_mdp(rng, ns=rng.randint(2, 8), na=rng.randint(2, 3), ne=ne, PD=4, rmax=3, v0max=2, plain_render=rng.random() < 0.5)
        for sa in m["pk"]:
            for row in sa:
                if ne == 1:
                    row[0] = rng.choice([2, 3, 4, 4])
                elif rng.random() < 0.5 and row[0] > 0:
                    row[0] -= 1
        gen.fix_dups(m)
        jobs.append({"mdp": m, "kind": "VI", "gamma": rng.choice(GAMMAS[:3]), "eps": [1, 4], "test": rng.choice(["span", "max_diff"]),
                     "calls": [2], "mbs": rng.choice([3, 1024]),
                     "injects": [{"v": gen.rand_values(rng, m["ns"], vmax=6)} for _ in range(2)], "tag": f"substochastic{k}",
                     "min_sweeps": 1})
    # at scale: more states than the default max_batch_size of 1024 (several batches with the default configuration)
    for k in range(2 if tier == "quick" else 8):
        m = gen.union(rng, rng.randint(560, 640), PD=rng.choice([2, 4]), na=2, ne=2, rmax=3, v0max=2, plain=k % 2 == 0)
        jobs.append({"mdp": m, "kind": "VI", "gamma": GAMMAS[k % 3], "eps": [1, 6], "test": "span", "calls": [1],
                     "mbs": rng.choice([1024, 1024, 500]),
                     "injects": [{"v": gen.rand_values(rng, m["ns"], vmax=9)} for _ in range(2)], "tag": f"large{k}"})
    # thousands of DENSE states (random gadgets, judged in full - no reduction)
    for k, ng in enumerate([2500] if tier == "quick" else [2500, 6000, 12000]):
        m = gen.union(rng, ng, PD=rng.choice([2, 4]), na=2, ne=2, rmax=3, v0max=2, plain=k % 2 == 0)
        jobs.append({"mdp": m, "kind": "VI", "gamma": GAMMAS[k % 3], "eps": [1, 6], "test": "span", "calls": [2],
                     "mbs": rng.choice([1024, 700]), "injects": [{"v": gen.rand_values(rng, m["ns"], vmax=9)}],
                     "tag": f"dense{ng}", "min_sweeps": 2})
    # tens of thousands of states (many batches per device); the trace is reduced exactly (solver_worker.quotient)
    for N in ([20100] if tier == "quick" else [20100, 33000, 70001]):
        jobs.append({"mdp": gen.corridors(rng, N, [3, 5, 2]), "kind": "VI", "gamma": [1, 2], "eps": [1, 4], "test": "span",
                     "calls": [4, 3], "mbs": rng.choice([1024, 3000]), "quotient": True, "min_sweeps": 1,
                     "tag": f"corridors{N}"})
    return jobs


def run(tier):
    rep = C.Report("C02", tier)
    rng = random.Random(C.seed() + 2)
    rep.rule = ("design: TLC checks monotonicity, gamma-contraction, shift law and greedy=argmax for every pair of "
                "grid vectors on seeded random gadgets; binding: one real ValueIteration sweep from an injected "
                "value vector (solver.values := V; solve(1)) on unions of dyadic gadgets, every sweep/measure/"
                "policy judged exactly by SolverTrace.tla. distinct = distinct (instance, layout, gamma, V); "
                "non-trivial = the trace contains a sweep")
    cfg = "BackupLaws.cfg" if tier == "quick" else "BackupLawsThorough.cfg"
    res = C.run_tlc("BackupLaws", cfg, extra=["-seed", str(C.seed() + 1)], coverage=True)
    C.tlc_must_be_clean(res, "BackupLaws")
    rep.add_tlc("BackupLaws (all grid vectors on seeded gadgets)", res)
    if res.invariant_violated:
        rep.violation("spec:BackupLaws " + ",".join(res.violated), {"tlc": res.out[-3000:]})
    jobs = jobs_for(tier, rng)
    j2, traces = solverlib.run_jobs(jobs)
    solverlib.judge(rep, j2, traces, label="C02")
    for j, t in list(zip(j2, traces))[:3]:
        if "ev" in t:
            rep.sample(solverlib.sample_of(j, t))
    gstates = sum(t["m"]["ns"] for t in traces if "m" in t)
    rep.extra["state_backups_checked"] = gstates

    rep.assumptions = ["dyadic MDP families only (float64 arithmetic exact); <= ~120 states, <= 3 actions, <= 3 events",
                       "values injected through the documented `values` attribute",
                       "single host device here; layouts across devices are C03"]
    return rep.finish()
