"""Worker: construct (and briefly solve) real solvers for configurations enumerated by
ConfigContract.tla, by one of three routes.

stdin: {"cases": [{"kind", "route", "c": levels, "order", "gid"}...], "out": path, "x64_first": bool}
"""
import hashlib
import json
import os
import shutil
import sys
import tempfile

GAMMA = {"neg": -0.1, "zero": 0.0, "mid": 0.5, "one": 1.0, "above": 1.1, "int_zero": 0, "int_one": 1, "nan": float("nan")}
EPS = {"neg": -1.0, "zero": 0.0, "tiny": 1e-12, "small": 1e-3, "half": 0.5, "two": 2.0, "twenty": 20.0,
       "twohundred": 200.0, "million": 1e6, "int_one": 1, "int_hundred": 100, "nan": float("nan")}
PLEV = {"neg": -0.1, "zero": 0.0, "tenth": 0.1, "mid": 0.25, "one": 1.0, "above": 1.5, "nan": float("nan")}


def classes(kind):
    from mdpax import solvers as S
    return {"VI": S.ValueIteration, "SAVI": S.SemiAsyncValueIteration, "RVI": S.RelativeValueIteration,
            "PVI": S.PeriodicValueIteration, "PI": S.PolicyIteration}[kind]


def problem_parts(c):
    if c["problem"] == "forest":
        from mdpax.problems.forest import Forest, ForestConfig
        return Forest, ForestConfig, {"S": c["S"], "p": PLEV[c["p"]]}
    from mdpax.problems.perishable_inventory.de_moor_single_product import (
        DeMoorSingleProductPerishable, DeMoorSingleProductPerishableConfig)
    return (DeMoorSingleProductPerishable, DeMoorSingleProductPerishableConfig,
            {"max_useful_life": c["m"], "lead_time": c["L"], "max_order_quantity": c["Q"], "max_demand": 4,
             "issue_policy": c["issue"]})


def solver_kwargs(kind, c, ckdir):
    kw = {"gamma": GAMMA[c["gamma"]], "epsilon": EPS[c["eps"]], "max_batch_size": c["mbs"],
          "checkpoint_frequency": c["freq"], "max_checkpoints": c["keep"], "verbose": c["verbose"],
          "checkpoint_dir": ckdir}
    if kind in ("VI", "PI", "SAVI"):
        kw["convergence_test"] = c["test"]
    if kind == "PI":
        kw["max_eval_iter"] = c["evaliter"]
    if kind == "PVI":
        kw["period"] = c["period"]
    return kw


def run_case(case):
    kind, route, c = case["kind"], case["route"], case["c"]
    cls = classes(kind)
    PCls, PCfg, pkw = problem_parts(c)
    ckdir = tempfile.mkdtemp(prefix="verif-cfg-")
    out = {"kind": kind, "route": route, "c": c, "order": case["order"], "gid": case["gid"],
           "construct": "ok", "solve": "skipped", "dtype": "none", "digest": "", "msg": "", "bok": True}
    solver = None
    try:
        kw = solver_kwargs(kind, c, os.path.join(ckdir, "ck"))
        if route == "kwargs":
            problem = PCls(**pkw)
            solver = cls(problem, **kw)
        elif route == "config":
            pcfg = PCfg(**pkw)
            scfg = cls.Config(problem=pcfg, **kw)
            solver = cls(config=scfg)
        elif route == "reuse":
            # ONE configuration object serves two solvers and is edited in place in between (a parameter sweep):
            # the first solver must keep the values it was built with, the second must see the edited ones
            pcfg = PCfg(**pkw)
            scfg = cls.Config(problem=pcfg, **kw)
            solver = cls(config=scfg)
            scfg.epsilon = 5.0e5
            if kind != "RVI":
                scfg.gamma = 0.25 if kw["gamma"] != 0.25 else 0.75
            if c["problem"] == "forest":
                scfg.problem.S = pkw["S"] + 3
            second = cls(config=scfg)
            out["bok"] = bool(second.epsilon == 5.0e5 and
                              (c["problem"] != "forest" or second.problem.n_states == pkw["S"] + 3))
        elif route == "yaml":
            # write the configuration file through a checkpoint-enabled solver, then reload it
            kw2 = dict(kw)
            kw2["checkpoint_frequency"] = max(1, kw["checkpoint_frequency"])
            kw2["max_checkpoints"] = max(1, kw["max_checkpoints"])
            first = cls(PCls(**pkw), **kw2)
            first.solve(max_iterations=1)
            if getattr(first, "checkpoint_manager", None) is not None:
                first.checkpoint_manager.wait_until_finished()
            solver = cls.restore(os.path.join(ckdir, "ck"), checkpoint_frequency=kw["checkpoint_frequency"],
                                 max_checkpoints=max(1, kw["max_checkpoints"]))
    except (ValueError, TypeError) as ex:
        out["construct"], out["msg"] = type(ex).__name__, str(ex)[:200]
    except Exception as ex:
        out["construct"], out["msg"] = "other:" + type(ex).__name__, str(ex)[:200]
    if solver is not None:
        try:
            import numpy as np
            k = 2 if route == "yaml" else 3
            st = solver.solve(max_iterations=k)
            if getattr(solver, "checkpoint_manager", None) is not None:
                solver.checkpoint_manager.wait_until_finished()
            v = np.asarray(st.values)
            out["solve"] = "ok"
            out["dtype"] = str(v.dtype)
            out["digest"] = hashlib.sha256(np.asarray(v, dtype=np.float64).tobytes()).hexdigest()[:16]
            out["finite"] = bool(np.all(np.isfinite(v)))
            out["iteration"] = int(st.info.iteration)
        except Exception as ex:
            out["solve"], out["msg"] = "error:" + type(ex).__name__, str(ex)[:200]
    shutil.rmtree(ckdir, ignore_errors=True)
    return out


def main():
    req = json.load(sys.stdin)
    import jax
    if req.get("x64_first", True):
        jax.config.update("jax_enable_x64", True)
    out = [run_case(case) for case in req["cases"]]
    json.dump(out, open(req["out"], "w"))


if __name__ == "__main__":
    main()
