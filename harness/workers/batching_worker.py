"""Worker: observe the real BatchProcessor on a list of (n, maxb, d) points.

stdin: {"points": [[n, maxb, d_or_null], ...], "out": path}
Writes a JSON list of observations (ints only) for BatchingTrace.tla.
"""
import json
import sys

import os

import jax

if not os.environ.get("VERIF_WORKER_NO_X64"):
    jax.config.update("jax_enable_x64", True)      # (VERIF_WORKER_NO_X64: a process in JAX's default 32-bit mode)
import jax.numpy as jnp  # noqa: E402
import numpy as np  # noqa: E402

from mdpax.utils.batch_processing import BatchProcessor  # noqa: E402

WIDTHS = [((), 1), ((2,), 2), ((2, 3), 6)]


def observe(n, maxb, d, dtype=None):
    dd = d
    if d is not None and dtype:
        # the requested device count as an integer-valued numpy / jax scalar instead of a Python int
        dd = {"np64": np.int64, "np32": np.int32, "jnp32": jnp.int32}[dtype](d)
    bp = BatchProcessor(n_states=n, state_dim=1, max_batch_size=maxb, pmap_device_count=dd)
    if n > 2000000:
        # tens of millions of states: the layout attributes only
        return {"n": n, "maxb": maxb, "d": int(d if d is not None else len(jax.devices())), "nd": int(bp.n_devices),
                "nb": int(bp.n_batches), "bs": int(bp.batch_size), "pad": int(bp.n_pad), "shape": [], "flat": [], "flatf": [],
                "un": [[], [], []], "width": [1, 2, 6], "attrsonly": True}
    states = jnp.arange(1, n + 1, dtype=jnp.int32).reshape(n, 1)
    batched = bp.prepare_batches(states)
    shape = tuple(int(x) for x in batched.shape)
    obs = {
        "n": n, "maxb": maxb, "d": int(d if d is not None else len(jax.devices())),
        "nd": int(bp.n_devices), "nb": int(bp.n_batches), "bs": int(bp.batch_size),
        "pad": int(bp.n_pad), "shape": list(shape),
        "flat": [int(x) for x in np.asarray(batched).reshape(-1)],
        "un": [], "width": [], "attrsonly": False,
    }
    # float-typed states with a fractional part: s + 1/2 must come back as s + 1/2, padding as 0, dtype unchanged
    fstates = (jnp.arange(1, n + 1, dtype=jnp.float64) + 0.5).reshape(n, 1)
    fb = bp.prepare_batches(fstates)
    same_type = str(fb.dtype) == str(fstates.dtype)
    obs["flatf"] = [(int(x - 0.5) if (x - 0.5) == int(x - 0.5) and x > 0 else (0 if x == 0 else -7)) if same_type else -7
                    for x in np.asarray(fb, dtype=np.float64).reshape(-1)]
    slots = shape[0] * shape[1] * shape[2]
    for trailing, w in WIDTHS:
        planted = (np.arange(1, slots + 1).reshape(-1, 1) * 100 + np.arange(w).reshape(1, -1))
        res = jnp.asarray(planted.reshape(shape[:3] + trailing))
        if bp.n_devices > 1 and len(jax.devices()) >= bp.n_devices:
            # real (emulated) devices: hand over what a pmapped computation returns - an array sharded over the devices
            res = jax.pmap(lambda x: x + 0)(res)
        out = np.asarray(bp.unbatch_results(res))
        ok_shape = out.shape[1:] == trailing
        obs["un"].append([int(x) for x in out.reshape(-1)] if ok_shape else [-1])
        obs["width"].append(w)
    return obs


def main():
    req = json.load(sys.stdin)
    out = []
    for pt in req["points"]:
        n, maxb, d = pt[:3]
        try:
            out.append(observe(n, maxb, d, pt[3] if len(pt) > 3 else None))
        except Exception as ex:  # an exception is an observation too (layout impossible)
            out.append({"n": n, "maxb": maxb, "d": d or 0, "nd": 0, "nb": 0, "bs": 0, "pad": -1,
                        "shape": [], "flat": [], "flatf": [], "un": [[-1], [-1], [-1]], "width": [1, 2, 6], "attrsonly": False,
                        "error": repr(ex)[:200]})
    json.dump(out, open(req["out"], "w"))


if __name__ == "__main__":
    main()
