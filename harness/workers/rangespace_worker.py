"""Worker: observe the real create_range_space on a list of boxes.

stdin: {"boxes": [[mins, maxs], ...], "out": path}
"""
import itertools
import json
import sys

import jax

jax.config.update("jax_enable_x64", True)
import jax.numpy as jnp  # noqa: E402
import numpy as np  # noqa: E402

from mdpax.utils.spaces import create_range_space  # noqa: E402


def observe(mins, maxs):
    space, index_fn = create_range_space(jnp.array(mins), jnp.array(maxs))
    queries = list(itertools.product(*[range(lo - 1, hi + 2) for lo, hi in zip(mins, maxs)]))
    q = jnp.array(np.array(queries, dtype=np.int32).reshape(len(queries), len(mins)))
    idx = jax.vmap(index_fn)(q)
    sp = np.asarray(space)
    return {"mins": list(mins), "maxs": list(maxs),
            "space": [[int(x) for x in row] for row in sp.reshape(sp.shape[0], -1)],
            "queries": [list(map(int, v)) for v in queries],
            "idx": [int(x) for x in np.asarray(idx).reshape(-1)]}


def main():
    req = json.load(sys.stdin)
    out = [observe(mins, maxs) for mins, maxs in req["boxes"]]
    json.dump(out, open(req["out"], "w"))


if __name__ == "__main__":
    main()
