"""Worker: observe the real create_range_space on a list of boxes.

stdin: {"boxes": [[mins, maxs], ...], "out": path}
"""
import itertools
import json
import sys

import jax

jax.config.update("jax_enable_x64", True)
import jax.numpy as jnp  # noqa: E402
import numpy as np  # noqa: E402

from mdpax.utils.spaces import create_range_space  # noqa: E402


def observe_sampled(mins, maxs, seed):
    """Boxes too large to list: row count, sampled rows (first/last/around every stride boundary/random) and
    sampled query vectors (corners, one step outside, random)."""
    import random
    rng = random.Random(seed)
    space, index_fn = create_range_space(jnp.array(mins), jnp.array(maxs))
    sp = np.asarray(space)
    n, d = sp.shape[0], len(mins)
    widths = [hi - lo + 1 for lo, hi in zip(mins, maxs)]
    rows = {1, 2, n - 1, n}
    stride = 1
    for w in reversed(widths):
        stride *= w
        for r in (stride - 1, stride, stride + 1, stride + 2):
            if 1 <= r <= n:
                rows.add(r)
    while len(rows) < 60:
        rows.add(rng.randint(1, n))
    rows = sorted(rows)
    queries = [tuple(c) for c in itertools.product(*[(lo - 1, lo, hi, hi + 1) for lo, hi in zip(mins, maxs)])]
    queries += [tuple(rng.randint(lo - 1, hi + 1) for lo, hi in zip(mins, maxs)) for _ in range(80)]
    q = jnp.array(np.array(queries, dtype=np.int32).reshape(len(queries), d))
    idx = jax.vmap(index_fn)(q)
    return {"mins": list(mins), "maxs": list(maxs), "sampled": True, "nrows": int(n), "rows": rows,
            "space": [[int(x) for x in sp[r - 1].reshape(-1)] for r in rows],
            "queries": [list(map(int, v)) for v in queries],
            "idx": [int(x) for x in np.asarray(idx).reshape(-1)]}


def as_bounds(v, how):
    """The caller's bounds in several array forms: jax int32 (default), Python list, numpy of a narrow integer type."""
    if how in (None, "jnp"):
        return jnp.array(v)
    if how == "list":
        return list(v)
    return np.array(v, dtype={"i8": np.int8, "u8": np.uint8, "i16": np.int16, "u16": np.uint16, "i64": np.int64}[how])


def observe(mins, maxs, how=None):
    space, index_fn = create_range_space(as_bounds(mins, how), as_bounds(maxs, how))
    queries = list(itertools.product(*[range(lo - 1, hi + 2) for lo, hi in zip(mins, maxs)]))
    q = jnp.array(np.array(queries, dtype=np.int32).reshape(len(queries), len(mins)))
    idx = jax.vmap(index_fn)(q)
    sp = np.asarray(space)
    return {"mins": list(mins), "maxs": list(maxs), "sampled": False, "nrows": int(sp.shape[0]), "rows": [],
            "space": [[int(x) for x in row] for row in sp.reshape(sp.shape[0], -1)],
            "queries": [list(map(int, v)) for v in queries],
            "idx": [int(x) for x in np.asarray(idx).reshape(-1)]}


def main():
    req = json.load(sys.stdin)
    out = [observe_sampled(b[0], b[1], b[2]) if len(b) > 2 and not isinstance(b[2], str)
           else observe(b[0], b[1], b[2] if len(b) > 2 else None) for b in req["boxes"]]
    json.dump(out, open(req["out"], "w"))


if __name__ == "__main__":
    main()
