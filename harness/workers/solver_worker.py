"""Worker: run real mdpax solvers on table MDPs with hooks on and project the recorded events
to integer traces for SolverTrace.tla / PITrace.tla.

stdin: {"jobs": [job...], "out": path}
job: {"mdp": table MDP, "kind": VI|SAVI|RVI|PVI|PI, "gamma": [GN, GD], "eps": [n, e],
      "test": span|max_diff, "calls": [k1, ...], "mbs": max_batch_size, "period": p,
      "shuffle": bool, "seed": int, "clear": bool, "inject": [[n, e], ...] | null,
      "cert": bool, "twin": bool, "max_eval_iter": int, "reset": bool, "tag": any}
"""
from __future__ import annotations

import json
import sys
import traceback
from fractions import Fraction
from math import gcd

import os

import jax

if not os.environ.get("VERIF_WORKER_NO_X64"):
    # most jobs switch 64-bit mode on first (as the repository's tests do); with VERIF_WORKER_NO_X64 the process leaves
    # it to the solver's jax_double_precision - the problem's tables are then built in single precision first
    jax.config.update("jax_enable_x64", True)
import jax.numpy as jnp  # noqa: E402
import numpy as np  # noqa: E402

from mdpax.utils import _verif  # noqa: E402
from harness import tabular as T  # noqa: E402

LIMIT = 2 ** 31 - 1


def solver_class(kind):
    from mdpax import solvers as S
    return {"VI": S.ValueIteration, "SAVI": S.SemiAsyncValueIteration,
            "RVI": S.RelativeValueIteration, "PVI": S.PeriodicValueIteration,
            "PI": S.PolicyIteration}[kind]


class Recorder:
    def __init__(self):
        self.events = []
        self.last_perm = None
        self.evals = []

    def __call__(self, seq, event, f):
        s = f.get("solver")
        if event == "perm":
            p = f.get("perm")
            self.last_perm = None if p is None else [int(x) for x in np.asarray(p)]
        elif event == "batching":
            self.events.append({"e": "batching", **{k: v for k, v in f.items()}})
        elif event == "eval_step":
            self.evals.append({"n": int(f["eval_iter"]), "conv": float(f["conv"]),
                               "old": np.array(f["old_values"], dtype=np.float64),
                               "new": np.array(f["new_values"], dtype=np.float64),
                               "policy": np.array(f["policy"])})
        elif event in ("solve_begin", "sweep", "converged", "solve_end"):
            rec = {"e": event, "it": int(s.iteration),
                   "values": np.array(s.values), "dtype": str(np.asarray(s.values).dtype)}
            if event == "solve_begin":
                rec["k"] = int(f["max_iterations"])
            if event == "sweep":
                if "conv" in f:
                    rec["conv"] = float(f["conv"])
                if "n_changed" in f:
                    rec["n_changed"] = int(f["n_changed"])
                    rec["evals"] = self.evals
                    self.evals = []
                    rec["policy"] = np.array(s.policy)
                rec["perm"] = self.last_perm
                self.last_perm = None
            if hasattr(s, "gain"):
                rec["gain"] = float(s.gain)
            if hasattr(s, "history_index"):
                rec["hidx"] = int(s.history_index)
            if event == "solve_end":
                rec["policy"] = None if s.policy is None else np.array(s.policy)
                vh = getattr(s, "value_history", "absent")
                rec["vh"] = None if vh is None or isinstance(vh, str) else np.array(vh)
            self.events.append(rec)


def _exp_of(x):
    d = T.to_dyadic(x)
    return None if d is None else d[1]


def policy_sets(policy, avecs, adiv=1, aoffset=0):
    """Per state: 1-based action indices whose vector equals the returned row (exactly, component by component)."""
    sets = []
    want = [[(x + aoffset) / adiv for x in v] for v in avecs]
    for row in np.asarray(policy).reshape(len(policy), -1):
        r = [float(x) for x in row]
        sets.append([a + 1 for a, v in enumerate(want) if r == v])
    return sets


def components(mdp):
    ns = mdp["ns"]
    parent = list(range(ns))

    def find(x):
        while parent[x] != x:
            parent[x] = parent[parent[x]]
            x = parent[x]
        return x

    for s in range(ns):
        for a in range(mdp["na"]):
            for e in range(mdp["ne"]):
                if mdp["pk"][s][a][e] > 0:
                    parent[find(s)] = find(mdp["next"][s][a][e])
    return [find(s) for s in range(ns)]


def lcm(a, b):
    return a * b // gcd(a, b)


def discounted_cert(mdp, gamma, pick, E, den, eps_int, bound_num, extra_pol=None):
    """Optimal values and the value of `pick` (and of `extra_pol`) as integers over per-component
    denominators."""
    vs, _ = T.frac_optimal(mdp, gamma)
    vp = T.frac_policy_value(mdp, pick, gamma)
    ve = T.frac_policy_value(mdp, extra_pol, gamma) if extra_pol is not None else vp
    comp = components(mdp)
    cd_of = {}
    for s in range(mdp["ns"]):
        c = comp[s]
        d = lcm(lcm((vs[s] * 2 ** E).denominator, (vp[s] * 2 ** E).denominator),
                (ve[s] * 2 ** E).denominator)
        cd_of[c] = lcm(cd_of.get(c, 1), d)
    cd = [cd_of[comp[s]] for s in range(mdp["ns"])]
    vsn = [int(vs[s] * 2 ** E * cd[s]) for s in range(mdp["ns"])]
    vpn = [int(vp[s] * 2 ** E * cd[s]) for s in range(mdp["ns"])]
    een = [int(ve[s] * 2 ** E * cd[s]) for s in range(mdp["ns"])]
    rmax = max(abs(r) for sa in mdp["rew"] for row in sa for r in row) * 2 ** (E - mdp["rexp"])
    big = max([abs(x) for x in vsn + vpn + een] + [rmax * max(cd)]) * den * 4
    big = max(big, eps_int * max(cd) * bound_num * 2 * max(gamma.denominator, 1))
    if big >= LIMIT:
        return None
    return {"kind": "discounted", "vsn": vsn, "vpn": vpn, "een": een, "cd": cd, "evalat": 0}


def gain_solve(mdp, pol):
    """(g, h) with h[last] = 0 and h + g = r_pol + P_pol h (unichain), exact."""
    ns = mdp["ns"]
    R, P = T.frac_tables(mdp)
    # unknowns: h[0..ns-2], g ; h[ns-1] = 0
    A = [[Fraction(0)] * (ns + 1) for _ in range(ns)]
    for s in range(ns):
        a = pol[s]
        if s < ns - 1:
            A[s][s] += 1
        A[s][ns - 1] += 1  # column ns-1 holds g
        for e in range(mdp["ne"]):
            t = mdp["next"][s][a][e]
            if t < ns - 1:
                A[s][t] -= P[s][a][e]
            A[s][ns] += P[s][a][e] * R[s][a][e]
    sol = T._solve(A)
    return sol[ns - 1], sol[: ns - 1] + [Fraction(0)]


def gain_optimal(mdp):
    pol = [0] * mdp["ns"]
    R, P = T.frac_tables(mdp)
    for _ in range(200):
        g, h = gain_solve(mdp, pol)
        changed = False
        for s in range(mdp["ns"]):
            qs = [sum(P[s][a][e] * (R[s][a][e] + h[mdp["next"][s][a][e]]) for e in range(mdp["ne"]))
                  for a in range(mdp["na"])]
            if max(qs) > qs[pol[s]]:
                pol[s] = qs.index(max(qs))
                changed = True
        if not changed:
            return g, h
    raise RuntimeError("no convergence")


def gain_cert(mdp, pick, E, eps_int):
    try:
        g, h = gain_optimal(mdp)
        pg, ph = gain_solve(mdp, pick)
    except Exception:
        return None
    sc = 2 ** E
    gd = 1
    for x in [g] + h:
        gd = lcm(gd, (x * sc).denominator)
    pgd = 1
    for x in [pg] + ph:
        pgd = lcm(pgd, (x * sc).denominator)
    cert = {"kind": "gain", "gd": gd, "gn": int(g * sc * gd), "hn": [int(x * sc * gd) for x in h],
            "pgd": pgd, "pgn": int(pg * sc * pgd), "phn": [int(x * sc * pgd) for x in ph]}
    rmax = max(abs(r) for sa in mdp["rew"] for row in sa for r in row) * 2 ** (E - mdp["rexp"])
    big = max([abs(cert["gn"]), abs(cert["pgn"])] + [abs(x) for x in cert["hn"] + cert["phn"]]
              + [rmax * gd, rmax * pgd]) * mdp["PD"] * 4
    big = max(big, eps_int * gd * pgd * 2, abs(cert["pgn"]) * gd * 2, abs(cert["gn"]) * pgd * 2)
    if big >= LIMIT:
        return None
    return cert


def attach_returned(events, st, solver):
    """Compare the SolverState RETURNED by solve() with what the solver held at its solve_end event, and
    (periodic VI) the returned value history, slot by slot, with the recorded iterates."""
    end = next((e for e in reversed(events) if e["e"] == "solve_end"), None)
    if end is None:
        return
    ok = True
    try:
        ok = ok and int(st.info.iteration) == end["it"]
        ok = ok and np.array_equal(np.asarray(st.values), end["values"])
        if end.get("policy") is None:
            ok = ok and st.policy is None
        else:
            ok = ok and st.policy is not None and np.array_equal(np.asarray(st.policy), end["policy"])
        if "gain" in end:
            ok = ok and float(st.info.gain) == end["gain"]
        if hasattr(st.info, "history_index"):
            ok = ok and int(st.info.history_index) == end.get("hidx")
            ok = ok and int(st.info.period) == int(solver.period)
    except Exception:
        ok = False
    end["retok"] = bool(ok)
    vh = getattr(st.info, "value_history", None) if hasattr(st, "info") else None
    if vh is not None:
        vh = np.asarray(vh)
        p = int(solver.period)
        hidx = int(st.info.history_index)
        iterates = {e["it"]: e["values"] for e in events if e["e"] in ("sweep", "solve_begin")}
        n = end["it"]
        good = vh.shape[0] == p + 1
        for j in range(0, min(p, n) + 1):
            if not good:
                break
            if (n - j) in iterates:
                good = bool(np.array_equal(vh[(hidx - j) % (p + 1)], iterates[n - j]))
        end["vhok"] = bool(good)


def build_solver(job, ckpt_dir=None):
    mdp = job["mdp"]
    kind = job["kind"]
    GN, GD = job["gamma"]
    gamma = GN / GD
    if job.get("gamma_as_int") and GN % GD == 0:
        gamma = GN // GD          # the documented domain [0, 1] includes the Python ints 0 and 1
    eps = job["eps"][0] / 2 ** job["eps"][1]
    if job.get("eps_as_int") and job["eps"][1] == 0:
        eps = int(job["eps"][0])
    problem = T.make_problem(mdp)
    kw = dict(gamma=gamma, epsilon=eps, max_batch_size=job.get("mbs", 1024), verbose=0)
    if job.get("jdp") is False:
        # jax_double_precision=False in a process whose 64-bit mode is already on: the flag never switches it off, the
        # solver computes in float64 and every documented rule still applies
        kw["jax_double_precision"] = False
    if kind in ("VI", "SAVI", "PI"):
        kw["convergence_test"] = job.get("test", "span")
    if kind == "PVI":
        kw["period"] = job["period"]
        kw["clear_value_history_on_convergence"] = job.get("clear", True)
    if kind == "SAVI":
        kw["shuffle_states"] = job.get("shuffle", False)
        if job.get("shuffle_np"):
            # the flag as a numpy boolean / a plain 1 (e.g. a row of an experiment grid): truthy is truthy
            kw["shuffle_states"] = np.bool_(True) if job["shuffle_np"] == "np" else 1
        kw["random_seed"] = job.get("seed", 42)
    if kind == "PI":
        kw["max_eval_iter"] = job.get("max_eval_iter", 100)
        kw["reset_values_for_each_policy_eval"] = job.get("reset", False)
    if ckpt_dir is not None:
        r = job["reload"]
        kw.update(checkpoint_dir=ckpt_dir, checkpoint_frequency=r.get("freq", 1), max_checkpoints=r.get("keep", 2),
                  enable_async_checkpointing=bool(r.get("async", True)))
    return solver_class(kind)(problem, **kw)


def run_job(job):
    if job.get("reload"):
        import shutil
        import tempfile
        d = tempfile.mkdtemp(prefix="verif-reload-")
        try:
            return _run_job(job, d)
        finally:
            shutil.rmtree(d, ignore_errors=True)
    return _run_job(job, None)


def _run_job(job, ckpt_dir):
    """Returns a list of raw recordings: one per injected vector, or a single one."""
    mdp = job["mdp"]
    kind = job["kind"]
    rec = Recorder()
    _verif.clear_sinks()
    _verif.add_sink(rec)
    try:
        solver = build_solver(job, ckpt_dir)
    except Exception as ex:
        _verif.clear_sinks()
        return [{"crash": f"{type(ex).__name__}: {str(ex)[:300]}"}]
    bp = solver.batch_processor
    layout = {"nd": int(bp.n_devices), "nb": int(bp.n_batches), "bs": int(bp.batch_size),
              "pad": int(bp.n_pad)}
    start_policy = None if solver.policy is None else np.array(solver.policy)
    raws = []
    injects = job.get("injects") or [None]
    for inj in injects:
        rec.events = []
        if inj is not None:
            solver.values = jnp.array([n / 2 ** e for n, e in inj["v"]], dtype=jnp.float64)
            if inj.get("policy") is not None:
                solver.policy = jnp.array(T.action_array(mdp["render"], mdp["na"])[np.array(inj["policy"], dtype=np.int32)])
                start_policy = np.array(solver.policy)
        start = np.array(solver.values)
        gain0 = float(getattr(solver, "gain", 0.0))
        error = None
        results = []
        for ci, k in enumerate(job["calls"]):
            if ci == 1 and job.get("interloper"):
                # an unrelated solver instance constructed between two solve() calls (never solved): process-global
                # state (64-bit mode, logging) it touches must not change what THIS solver computes
                from mdpax.problems import Forest
                from mdpax.solvers import ValueIteration as _VI
                _VI(Forest(S=3), **job["interloper"])
            try:
                if ckpt_dir is not None and ci in job["reload"].get("before_calls", []):
                    # interrupt-and-resume inside the exactly judged run: a NEW solver instance loads the latest
                    # checkpoint of the directory and continues; every later sweep is still judged from the values,
                    # gain, history and iteration count the previous instance ended with
                    solver.checkpoint_manager.wait_until_finished()
                    if job["reload"].get("same_object"):
                        # the solver object already in use re-loads its own latest checkpoint: nothing it holds changes
                        solver.load_checkpoint(ckpt_dir)
                    else:
                        fresh = build_solver(job, ckpt_dir)
                        fresh.load_checkpoint(ckpt_dir)
                        solver = fresh
                st = solver.solve(max_iterations=k)
                results.append(st)
                attach_returned(rec.events, st, solver)
            except Exception as ex:  # an exception inside solve() is an observation
                error = f"{type(ex).__name__}: {str(ex)[:200]}"
                break
        out_len = [int(np.asarray(r.values).shape[0]) for r in results]
        raws.append({"events": rec.events, "start": start, "gain0": gain0, "layout": layout,
                     "error": error, "start_policy": start_policy, "out_len": out_len,
                     "injected": inj is not None})
    _verif.clear_sinks()
    if job.get("twin"):
        # a second solver built with the same seed must draw the same permutation sequence
        rec2 = Recorder()
        _verif.add_sink(rec2)
        try:
            twin = build_solver(job)
            for k in job.get("twin_calls") or job["calls"]:
                twin.solve(max_iterations=k)
        except Exception:
            pass
        _verif.clear_sinks()
        raws[0]["twin_perms"] = [e.get("perm") for e in rec2.events if e["e"] == "sweep"]
    return raws


def quotient(trace):
    """Exact reduction of a trace on a LARGE table MDP to one the model checker can read: states that only loop to
    themselves and whose tables AND recorded data (values, policy rows, evaluation iterates at every event) are
    identical to those of an earlier such state are dropped; everything else is kept and successor indices are
    remapped to the representative.  Every per-state clause of the trace specifications then holds for a dropped
    state iff it holds for its representative, and max/min aggregates (span, max difference) are unchanged by
    duplicates.  The last state is always kept (relative value iteration reads it)."""
    m = trace["m"]
    ns = m["ns"]
    per_state = [trace["v0"], trace["start"], trace["startpol"], trace.get("pol0") or [0] * ns]
    for e in trace["ev"]:
        per_state.append(e["v"])
        if e["pol"]:
            per_state.append([tuple(x) for x in e["pol"]])
        if e["pick"]:
            per_state.append(e["pick"])
        for st in e["evals"]:
            per_state += [st["old"], st["new"], st["pick"]]
    for arr in per_state:
        if len(arr) != ns:
            return trace            # malformed lengths are judged on the unreduced trace
    rep_of, seen, keep = {}, {}, []
    for s_ in range(ns):
        inert = all(n == s_ + 1 for row in m["next"][s_] for n in row)
        if inert and s_ != ns - 1:
            sig = (repr(m["rew"][s_]), repr(m["pk"][s_]), tuple(arr[s_] for arr in per_state))
            if sig in seen:
                rep_of[s_] = seen[sig]
                continue
            seen[sig] = s_
        rep_of[s_] = s_
        keep.append(s_)
    new_index = {old: k for k, old in enumerate(keep)}

    def sub(arr):
        return [arr[i] for i in keep] if len(arr) == ns else arr

    m2 = dict(m, ns=len(keep),
              next=[[[new_index[rep_of[n - 1]] + 1 for n in row] for row in m["next"][i]] for i in keep],
              rew=[m["rew"][i] for i in keep], pk=[m["pk"][i] for i in keep])
    t2 = dict(trace, m=m2, v0=sub(trace["v0"]), start=sub(trace["start"]), startpol=sub(trace["startpol"]))
    if "pol0" in trace:
        t2["pol0"] = sub(trace["pol0"])
    t2["ev"] = []
    for e in trace["ev"]:
        e2 = dict(e, v=sub(e["v"]), pol=sub(e["pol"]), pick=sub(e["pick"]),
                  evals=[dict(st, old=sub(st["old"]), new=sub(st["new"]), pick=sub(st["pick"])) for st in e["evals"]])
        t2["ev"].append(e2)
    t2["quotient_of"] = ns
    return t2


def project(job, raw):
    """Project a raw recording to the integer trace TLC reads (None fields never compared)."""
    if "crash" in raw:
        return {"crash": raw["crash"], "tag": job.get("tag")}
    mdp = job["mdp"]
    kind = job["kind"]
    GN, GD = job["gamma"]
    ns = mdp["ns"]
    den = mdp["PD"] * GD
    evs = [e for e in raw["events"] if e["e"] != "batching"]
    # ---- choose the scale from everything that will be compared
    def exps_of_event(ev):
        xs = [_exp_of(x) for x in ev["values"]]
        if "conv" in ev and ev["conv"] != float("inf"):
            xs.append(_exp_of(ev["conv"]))
        if "gain" in ev:
            xs.append(_exp_of(ev["gain"]))
        for st in ev.get("evals", []):
            xs += [_exp_of(x) for x in st["old"]] + [_exp_of(x) for x in st["new"]]
            if st["conv"] != float("inf"):
                xs.append(_exp_of(st["conv"]))
        return xs

    base = [mdp["rexp"], mdp["v0exp"], job["eps"][1]] + [_exp_of(x) for x in raw["start"]]
    base.append(_exp_of(raw["gain0"]))
    factor = den * max(GN, GD - GN, 1) * 4
    if kind == "PVI" and GN != GD:
        factor *= 1  # extra growth handled by the per-prefix magnitude test below
    keep, E = 0, max(x for x in base if x is not None)
    inexact_at = None
    for idx, ev in enumerate(evs):
        xs = exps_of_event(ev)
        if any(x is None for x in xs):
            inexact_at = idx
            keep = idx + 1
            break
        E2 = max([E] + xs)
        # exact arithmetic adds at most log2(PD*GD) fractional bits per application of the backup (per evaluation
        # step in PI; per batch in a Gauss-Seidel sweep).  More than that cannot be a correctly computed value:
        # the event is kept and marked not representable (the model rejects it) instead of being cut off as
        # "out of the model's integer range".
        steps = max(1, len(ev.get("evals", [])))
        chain = max(1, int(raw["layout"]["nb"])) if kind == "SAVI" else 1
        if ev["e"] != "solve_begin" and E2 > E + steps * chain * max(1, (den - 1).bit_length()) + 2:
            inexact_at = idx
            keep = idx + 1
            break
        mags = [abs(float(v)) for v in ev["values"]] + [abs(raw["gain0"])]
        if "conv" in ev and ev["conv"] != float("inf"):
            mags.append(abs(ev["conv"]))
        for st in ev.get("evals", []):
            mags += [abs(float(v)) for v in st["new"]]
        big = max(mags + [1.0]) * 2 ** E2 * factor
        if kind == "PVI" and GN != GD:
            big *= GD ** max(0, ev["it"] - 1)
        rbig = max(abs(r) for sa in mdp["rew"] for row in sa for r in row) * 2 ** (E2 - mdp["rexp"]) * factor
        if max(big, rbig) >= LIMIT or E2 > 40:
            break
        E = E2
        keep = idx + 1
    complete = keep == len(evs) and raw["error"] is None
    evs = evs[:keep]
    if not evs:
        return {"skip": "first event out of 32-bit range"}

    def at(x):
        return T.at_scale(x, E)

    def vec(v):
        out = [at(x) for x in v]
        ok = all(o is not None and abs(o) < LIMIT for o in out)
        return ok, [o if ok else 0 for o in out]

    avecs = mdp["render"]["avecs"]
    adiv = int(mdp["render"].get("adiv", 1))
    aoff = int(mdp["render"].get("aoffset", 0))
    tr_events = []
    for ev in evs:
        vok, v = vec(ev["values"])
        if len(ev["values"]) != ns:
            vok, v = False, [0] * ns
        rec = {"e": {"solve_begin": "begin", "sweep": "sweep", "converged": "conv",
                     "solve_end": "end"}[ev["e"]],
               "it": ev["it"], "k": ev.get("k", 0), "vok": vok, "v": v,
               "cok": False, "c": 0, "inf": False, "gok": False, "g": 0,
               "perm": [], "pinv": [], "permref": [], "pol": [], "polok": True, "pick": [], "hidx": ev.get("hidx", 0),
               "nchanged": ev.get("n_changed", 0), "evals": [], "polidx": [],
               "retok": bool(ev.get("retok", True)), "vhok": bool(ev.get("vhok", True)),
               "f64": ev.get("dtype", "float64") == "float64"}
        if "conv" in ev:
            if ev["conv"] == float("inf"):
                rec["inf"] = True
            else:
                c = at(ev["conv"])
                rec["cok"], rec["c"] = c is not None, c or 0
        if "gain" in ev:
            g = at(ev["gain"])
            rec["gok"], rec["g"] = g is not None, g or 0
        if ev["e"] == "sweep" and kind == "SAVI":
            rec["perm"] = [p + 1 for p in ev["perm"]] if ev.get("perm") is not None else list(range(1, ns + 1))
            # the inverse (position of every state) - proposed here, verified by the specification in one pass
            inv = [0] * ns
            if sorted(rec["perm"]) == list(range(1, ns + 1)):
                for pos_, st_ in enumerate(rec["perm"]):
                    inv[st_ - 1] = pos_ + 1
            rec["pinv"] = inv
        if ev.get("policy") is not None:
            sets = policy_sets(ev["policy"], avecs, adiv, aoff)
            if len(sets) != ns:
                sets = [[] for _ in range(ns)]
            rec["pol"] = sets
            # a policy produced by the solver must consist of LISTED actions (unlisted ones exist only in supplied policies)
            rec["polok"] = all(len(s) > 0 and min(s) <= mdp["na"] for s in sets)
            rec["pick"] = [s[0] if s else 1 for s in sets]
        elif ev["e"] == "solve_end":
            rec["polok"] = False
            rec["pol"] = [[] for _ in range(ns)]
            rec["pick"] = [1] * ns
        for st in ev.get("evals", []):
            ook, o = vec(st["old"])
            nok, n = vec(st["new"])
            c = None if st["conv"] == float("inf") else at(st["conv"])
            psets = policy_sets(st["policy"], avecs, adiv, aoff)
            rec["evals"].append({"n": st["n"], "ok": ook and nok and c is not None,
                                 "old": o, "new": n, "c": c or 0,
                                 "pick": [s[0] if s else 1 for s in psets]})
        tr_events.append(rec)
    if raw.get("twin_perms") is not None:
        sweeps = [r for r in tr_events if r["e"] == "sweep"]
        for r, p2 in zip(sweeps, raw["twin_perms"]):
            r["permref"] = [x + 1 for x in p2] if p2 is not None else list(range(1, ns + 1))
    sok, start = vec(raw["start"])
    v0 = [x << (E - mdp["v0exp"]) for x in mdp["v0"]]
    m = {"ns": ns, "na": mdp["na"], "ne": mdp["ne"],
         "next": [[[n + 1 for n in row] for row in sa] for sa in mdp["next"]],
         "rew": [[[r << (E - mdp["rexp"]) for r in row] for row in sa] for sa in mdp["rew"]],
         "pk": mdp["pk"], "PD": mdp["PD"], "GN": GN, "GD": GD}
    eps_int = job["eps"][0] << (E - job["eps"][1])
    trace = {"kind": kind, "m": m, "test": job.get("test", "span"), "eps": eps_int,
             "v0": v0, "start": start if sok else [0] * ns, "startok": sok,
             "iter0": evs[0]["it"] if evs[0]["e"] == "solve_begin" else 0,
             "gain0": at(raw["gain0"]) or 0, "injected": bool(raw.get("injected")),
             "period": job.get("period", 0), "shuffle": bool(job.get("shuffle", False)),
             "reloads": bool(job.get("reload")) and not job["reload"].get("same_object"),
             "layout": raw["layout"], "ev": tr_events, "complete": complete,
             "cert": {"kind": "none"}, "scale_exp": E, "error": raw["error"],
             "inexact_at": inexact_at, "out_len": raw["out_len"],
             "max_eval_iter": job.get("max_eval_iter", 0), "reset": bool(job.get("reset", False)),
             "tag": job.get("tag")}
    if raw.get("start_policy") is not None:
        sp = policy_sets(raw["start_policy"], avecs, adiv, aoff)
        trace["startpol"] = [s[0] if s else 1 for s in sp]
        trace["startpolok"] = all(len(s) > 0 for s in sp)
    else:
        trace["startpol"] = [1] * ns
        trace["startpolok"] = True
    if kind == "PI":
        trace["maxeval"] = job.get("max_eval_iter", 100)
        trace["haspol0"] = bool(mdp["render"].get("has_init_policy"))
        trace["injectedpol"] = any((inj or {}).get("policy") is not None for inj in (job.get("injects") or []))
        if trace["haspol0"]:
            sets = policy_sets(T.action_array(mdp["render"], mdp.get("nax", mdp["na"]))[np.array(mdp["pol0"])], avecs, adiv, aoff)
            trace["pol0"] = [s[0] for s in sets]
        else:
            trace["pol0"] = [1] * ns
    if job.get("quotient") and kind != "SAVI":
        trace = quotient(trace)
        return trace
    # ---- certificates (proposed here, verified by TLC)
    last = tr_events[-1]
    if job.get("cert") and complete and last["e"] == "end" and last["polok"]:
        pick0 = [a - 1 for a in last["pick"]]
        if kind in ("VI", "SAVI", "PI") and GN < GD and GN > 0:
            bound_num = 2 * GN if kind == "SAVI" else 2
            extra, evalat = None, 0
            if kind == "PI":
                sw = [k for k, e in enumerate(tr_events) if e["e"] == "sweep" and e["evals"]]
                if sw:
                    evalat = sw[-1] + 1
                    extra = [a - 1 for a in tr_events[sw[-1]]["evals"][0]["pick"]]
            c = discounted_cert(mdp, Fraction(GN, GD), pick0, E, den, eps_int, bound_num, extra)
            if c:
                c["evalat"] = evalat
                trace["cert"] = c
        elif kind in ("RVI", "PVI") and GN == GD:
            c = gain_cert(mdp, pick0, E, eps_int)
            if c:
                trace["cert"] = c
    return trace


def soft_pvi(job):
    """PVI with a non-dyadic discount factor: classify each logged measure against the two documented
    formulas (float arithmetic, relative 1e-9); legality is decided by BranchTrace.tla."""
    gamma = job["gamma_float"]
    mdp = job["mdp"]
    problem = T.make_problem(mdp)
    from mdpax import solvers as S
    rec = Recorder()
    _verif.clear_sinks()
    _verif.add_sink(rec)
    solver = S.PeriodicValueIteration(problem, gamma=gamma, epsilon=job["eps_float"], period=job["period"],
                                      max_batch_size=job.get("mbs", 1024), verbose=0,
                                      clear_value_history_on_convergence=False)
    iterates = [np.array(solver.values, dtype=np.float64)]
    solver.solve(max_iterations=job["calls"][0])
    _verif.clear_sinks()
    p = job["period"]
    sweeps = []
    for ev in rec.events:
        if ev["e"] != "sweep":
            continue
        iterates.append(np.array(ev["values"], dtype=np.float64))
        n = ev["it"]
        conv = ev["conv"]
        entry = {"it": n, "inf": conv == float("inf"), "undisc": False, "disc": False, "differ": False}
        if n >= p and conv != float("inf"):
            d1 = iterates[n] - iterates[n - p]
            und = float(d1.max() - d1.min())
            acc = np.zeros_like(iterates[0])
            for j in range(n - p + 1, n + 1):
                acc += (iterates[j] - iterates[j - 1]) / gamma ** (j - 1)
            dis = float(acc.max() - acc.min())
            # relative to the measure, with a floor relative to the magnitude of the accumulated differences: a measure
            # of (nearly) zero - all states moving in step - carries rounding noise of that magnitude
            scale = max(1.0, float(np.abs(acc).max()), float(np.abs(d1).max()))
            tol = max(1e-9 * max(abs(und), abs(dis)), 1e-12 * scale)
            entry["undisc"] = abs(conv - und) <= tol
            entry["disc"] = abs(conv - dis) <= tol
            entry["differ"] = abs(und - dis) > 100 * tol
        sweeps.append(entry)
    return {"soft": True, "gammaisone": gamma == 1.0, "period": p, "sweeps": sweeps, "gamma": gamma, "tag": job.get("tag")}


def run_group(jobs):
    """Several solvers of ONE process solve at the same time, each in its own thread (the interpreter is told to switch
    threads as often as it can).  One recorder per solver object: every hook event carries the solver it belongs to."""
    import threading
    recs, solvers, raws = {}, [], []
    router_lock = threading.Lock()

    def router(seq, event, f):
        s_ = f.get("solver")
        with router_lock:
            rec = recs.get(id(s_))
        if rec is not None:
            rec(seq, event, f)

    _verif.clear_sinks()
    _verif.add_sink(router)
    for job in jobs:
        solver = build_solver(job)
        recs[id(solver)] = Recorder()
        solvers.append(solver)
    old = sys.getswitchinterval()
    sys.setswitchinterval(1e-6)
    errors = [None] * len(jobs)
    results = [[] for _ in jobs]

    def work(i):
        try:
            for k in jobs[i]["calls"]:
                st = solvers[i].solve(max_iterations=k)
                results[i].append(st)
                attach_returned(recs[id(solvers[i])].events, st, solvers[i])
        except Exception as ex:
            errors[i] = f"{type(ex).__name__}: {str(ex)[:200]}"

    starts = [np.array(s_.values) for s_ in solvers]
    gains = [float(getattr(s_, "gain", 0.0)) for s_ in solvers]
    threads = [threading.Thread(target=work, args=(i,)) for i in range(len(jobs))]
    for t in threads:
        t.start()
    for t in threads:
        t.join()
    sys.setswitchinterval(old)
    _verif.clear_sinks()
    for i, (job, solver) in enumerate(zip(jobs, solvers)):
        bp = solver.batch_processor
        raws.append({"events": recs[id(solver)].events, "start": starts[i], "gain0": gains[i],
                     "layout": {"nd": int(bp.n_devices), "nb": int(bp.n_batches), "bs": int(bp.batch_size), "pad": int(bp.n_pad)},
                     "error": errors[i], "start_policy": None,
                     "out_len": [int(np.asarray(r.values).shape[0]) for r in results[i]], "injected": False})
    return raws


def main():
    req = json.load(sys.stdin)
    out = []
    for job in req["jobs"]:
        if job.get("group"):
            try:
                raws = run_group(job["group"])
                out.append([project(j, raw) for j, raw in zip(job["group"], raws)])
            except Exception:
                out.append([{"skip": "worker exception", "trace": traceback.format_exc()[-1500:], "tag": j.get("tag")}
                            for j in job["group"]])
            continue
        if job.get("soft"):
            out.append([soft_pvi(job)])
            continue
        try:
            trs = [project(job, raw) for raw in run_job(job)]
        except Exception:
            trs = [{"skip": "worker exception", "trace": traceback.format_exc()[-1500:],
                    "tag": job.get("tag")}]
        out.append(trs)
    json.dump(out, open(req["out"], "w"))


if __name__ == "__main__":
    main()
