"""Worker: full tables of the real shipped problems for InventoryTrace.tla.

stdin: {"params": [P...], "out": path}; P as in InventoryOps plus "coef": reward coefficients
(floats, dyadic) in the component order of the specification.
"""
import json
import sys
from fractions import Fraction

import os

import jax

if not os.environ.get("VERIF_WORKER_NO_X64"):
    # with VERIF_WORKER_NO_X64 the problems are used on their own in a process that never switches 64-bit mode on
    jax.config.update("jax_enable_x64", True)
import jax.numpy as jnp  # noqa: E402
import numpy as np  # noqa: E402


def build(P):
    k = P["kind"]
    c = P["coef"]
    if k == "forest":
        from mdpax.problems import Forest
        return Forest(S=P["S"], r1=c[0], r2=c[1], p=P.get("p", 0.25))
    if k == "demoor":
        from mdpax.problems import DeMoorSingleProductPerishable
        return DeMoorSingleProductPerishable(
            max_demand=P["D"], max_useful_life=P["m"], lead_time=P["L"], max_order_quantity=P["Q"],
            variable_order_cost=-c[0], shortage_cost=-c[1], wastage_cost=-c[2], holding_cost=-c[3],
            issue_policy="fifo" if P["fifo"] else "lifo")
    if k == "hendrix":
        from mdpax.problems import HendrixTwoProductPerishable
        return HendrixTwoProductPerishable(
            max_useful_life=P["m"], max_order_quantity_a=P["Qa"], max_order_quantity_b=P["Qb"],
            sales_price_a=c[0], sales_price_b=c[1], variable_order_cost_a=-c[2], variable_order_cost_b=-c[3],
            demand_poisson_mean_a=P.get("mean_a", 1.5), demand_poisson_mean_b=P.get("mean_b", 1.0))
    if k == "mirjalili":
        from mdpax.problems import MirjaliliPlateletPerishable
        m = P["m"]
        return MirjaliliPlateletPerishable(
            max_demand=P["D"], max_useful_life=m, max_order_quantity=P["Q"],
            useful_life_at_arrival_distribution_c_0=tuple([1.0, 0.5, 0.3, 0.2, 0.1, 0.6, 0.4][: m - 1]),
            useful_life_at_arrival_distribution_c_1=tuple([0.4, 0.0, -0.2, 0.1, 0.3, -0.1, 0.2][: m - 1]),
            variable_order_cost=-c[0], fixed_order_cost=-c[1], shortage_cost=-c[2], wastage_cost=-c[3],
            holding_cost=-c[4])
    raise ValueError(k)


def sample_rows(n, widths, k, seed):
    import random
    rng = random.Random(seed)
    rows = {1, 2, n - 1, n}
    stride = 1
    for w in reversed(widths):
        stride *= w
        rows |= {r for r in (stride - 1, stride, stride + 1) if 1 <= r <= n}
    # rows around the limits of narrow integer and floating-point types
    for e in (8, 15, 16, 24, 31):
        rows |= {r for r in range(2 ** e - 2, 2 ** e + 7) if 1 <= r <= n}
    while len(rows) < k:
        rows.add(rng.randint(1, n))
    return sorted(rows)


def through_yaml(prob):
    """The same problem rebuilt from its configuration after a YAML round trip (the route restore() and the
    configuration-only constructors take): OmegaConf.save / load / hydra instantiate."""
    import os
    import tempfile
    from hydra.utils import instantiate
    from omegaconf import OmegaConf
    fd, path = tempfile.mkstemp(suffix=".yaml", prefix="verif-inv-")
    os.close(fd)
    try:
        OmegaConf.save(prob.config, path)
        return instantiate(OmegaConf.load(path))
    finally:
        os.unlink(path)


def construct(P):
    prob = build(P)
    if P.get("route") == "yaml":
        prob = through_yaml(prob)
    return prob


def observe(P, prob):
    S, A, E = prob.state_space, prob.action_space, prob.random_event_space
    full = S
    n_full = int(np.asarray(S).shape[0])
    srows = []
    if P.get("sample"):
        widths = (np.asarray(S).max(axis=0) - np.asarray(S).min(axis=0) + 1).tolist()
        srows = sample_rows(n_full, widths, P["sample"], P.get("sample_seed", 0))
        S = jnp.asarray(np.asarray(S)[np.array(srows) - 1])
    vt = jax.vmap(jax.vmap(jax.vmap(prob.transition, (None, None, 0)), (None, 0, None)), (0, None, None))
    vp = jax.vmap(jax.vmap(jax.vmap(prob.random_event_probability, (None, None, 0)), (None, 0, None)), (0, None, None))
    nxt, rew = vt(S, A, E)
    pr = np.asarray(vp(S, A, E)).reshape(len(S), len(A), len(E))
    nxt = np.asarray(nxt).reshape(len(S) * len(A) * len(E), -1)
    rew = np.asarray(rew, dtype=np.float64).reshape(-1)
    nidx = np.asarray(jax.vmap(prob.state_to_index)(jnp.asarray(nxt))).reshape(-1)
    sidx = np.asarray(jax.vmap(prob.state_to_index)(S)).reshape(-1)
    # integer scale for rewards and coefficients
    exp = 0
    for x in list(P["coef"]) + [1.0]:
        d = Fraction(float(x)).denominator
        exp = max(exp, d.bit_length() - 1)
    sc = 2 ** exp
    rew_i, rew_ok = [], []
    for x in rew:
        fr = Fraction(float(x)) * sc
        ok = fr.denominator == 1 and abs(fr.numerator) < 2 ** 30
        rew_ok.append(bool(ok))
        rew_i.append(int(fr.numerator) if ok else 0)
    Pj = {k: v for k, v in P.items() if k not in ("coef", "p", "mean_a", "mean_b", "sample", "sample_seed", "no_x64")}
    nrow = []
    if srows:
        fa = np.asarray(full)
        nrow = [fa[i].astype(int).tolist() if 0 <= i < n_full else [] for i in nidx]
    return {"P": Pj, "sampled": bool(srows), "nstates": n_full, "srows": srows, "nrow": nrow, "states": np.asarray(S).tolist(), "actions": np.asarray(A).reshape(len(A), -1).tolist(),
            "events": np.asarray(E).reshape(len(E), -1).tolist(),
            "sidx": [int(x) for x in sidx], "next": nxt.astype(int).tolist(),
            "nidx": [int(x) for x in nidx], "rew": rew_i, "rewok": rew_ok,
            "ppos": [bool(x > 0) for x in pr.reshape(-1)],
            "coef": [int(Fraction(float(x)) * sc) for x in P["coef"]],
            "nonfinite_or_negative_prob": int(np.sum(~np.isfinite(pr)) + np.sum(pr < 0))}


def main():
    req = json.load(sys.stdin)
    out = []
    # ALL problems of the request are constructed before the first one is evaluated (and stay alive): instances of
    # one class with different parameters must not influence each other
    built = []
    for P in req["params"]:
        try:
            built.append(construct(P))
        except Exception as ex:
            built.append(ex)
    # ... and after them further instances of every class with smaller and with larger parameters (never evaluated)
    decoys = []
    # (the smallest last: out-of-range slices clip silently, so a too-small shared layout is the dangerous direction)
    for D in ({"kind": "forest", "S": 9}, {"kind": "forest", "S": 2},
              {"kind": "demoor", "m": 4, "L": 3, "Q": 1, "D": 1, "fifo": True}, {"kind": "demoor", "m": 1, "L": 1, "Q": 2, "D": 3, "fifo": False},
              {"kind": "hendrix", "m": 3, "Qa": 1, "Qb": 1}, {"kind": "hendrix", "m": 1, "Qa": 2, "Qb": 2},
              {"kind": "mirjalili", "m": 4, "Q": 1, "D": 1}, {"kind": "mirjalili", "m": 1, "Q": 2, "D": 2}):
        c = {"forest": [1.0, 1.0, 1.0], "demoor": [-1.0] * 4, "hendrix": [1.0, 1.0, -1.0, -1.0], "mirjalili": [-1.0] * 5}[D["kind"]]
        decoys.append(build(dict(D, coef=c)))
    for P, prob in zip(req["params"], built):
        try:
            if isinstance(prob, Exception):
                raise prob
            out.append(observe(P, prob))
        except Exception as ex:
            out.append({"crash": f"{type(ex).__name__}: {str(ex)[:300]}", "P": P})
    json.dump(out, open(req["out"], "w"))


if __name__ == "__main__":
    main()
