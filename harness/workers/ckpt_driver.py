"""Driver: one OS process generation of a checkpointing scenario on the real code.

usage: python -m harness.workers.ckpt_driver <spec.json>
spec: {"problem": {"type": "forest"|"de_moor"|"hendrix"|"mirjalili"|"tabular", ...params / "mdp"},
       "kind": VI|PI|RVI|PVI|SAVI, "solver_kw": {...}, "ops": [op...]}
ops:  {"op": "new"}                                    construct solver from problem + kwargs
      {"op": "restore", "dir", "step", "new_dir", "freq", "max", "async"}   class-level restore()
      {"op": "load", "dir", "step"}                    construct, then load_checkpoint()
      {"op": "solve", "k"}
      {"op": "wait"}                                   wait_until_finished()
      {"op": "list", "dir"}                            directory listing
      {"op": "copy", "src", "dst"}                     copy a checkpoint directory (a backup)
Events go to $MDPAX_VERIF_TRACE through mdpax.utils._verif (same sequence numbers, same kill
switch), so a kill can hit between any two of them.
"""
from __future__ import annotations

import json
import os
import re
import sys

import jax

if not os.environ.get("VERIF_DRIVER_NO_X64"):
    # most scenarios switch 64-bit mode on first, as the repository's tests do; with VERIF_DRIVER_NO_X64 the process
    # leaves it to the solver (jax_double_precision), like a user script that just imports mdpax
    jax.config.update("jax_enable_x64", True)
import numpy as np  # noqa: E402

from mdpax.utils import _verif  # noqa: E402


def make_problem(p):
    t = p["type"]
    kw = {k: (tuple(v) if isinstance(v, list) else v) for k, v in p.items() if k not in ("type", "mdp")}
    if t == "forest":
        from mdpax.problems import Forest
        return Forest(**kw)
    if t == "de_moor":
        from mdpax.problems import DeMoorSingleProductPerishable
        return DeMoorSingleProductPerishable(**kw)
    if t == "hendrix":
        from mdpax.problems import HendrixTwoProductPerishable
        return HendrixTwoProductPerishable(**kw)
    if t == "mirjalili":
        from mdpax.problems import MirjaliliPlateletPerishable
        return MirjaliliPlateletPerishable(**kw)
    if t == "tabular":
        from harness import tabular
        return tabular.make_problem(p["mdp"])
    raise ValueError(t)


def solver_class(kind):
    from mdpax import solvers as S
    return {"VI": S.ValueIteration, "SAVI": S.SemiAsyncValueIteration,
            "RVI": S.RelativeValueIteration, "PVI": S.PeriodicValueIteration,
            "PI": S.PolicyIteration}[kind]


def listing(d):
    if not d or not os.path.isdir(d):
        return {"exists": False, "final": [], "tmp": [], "config": False, "other": []}
    final, tmp, other = [], [], []
    for name in sorted(os.listdir(d)):
        if name.isdigit():
            final.append(int(name))
        elif re.match(r"^\d+\.orbax-checkpoint-tmp", name):
            tmp.append(int(name.split(".")[0]))
        elif name != "config.yaml":
            other.append(name)
    return {"exists": True, "final": sorted(final), "tmp": sorted(tmp),
            "config": os.path.exists(os.path.join(d, "config.yaml")), "other": other}


def config_text(solver):
    try:
        from omegaconf import OmegaConf
        return OmegaConf.to_yaml(OmegaConf.structured(solver.config), sort_keys=True)
    except Exception as ex:
        return f"<no yaml: {type(ex).__name__}>"


def main():
    spec = json.load(open(sys.argv[1]))
    kind = spec["kind"]
    cls = solver_class(kind)
    solver = None
    shared_cfg = None
    created = []
    for op in spec["ops"]:
        if solver is not None and solver not in created:
            created.append(solver)
        name = op["op"]
        if name == "new":
            problem = make_problem(spec["problem"])
            if op.get("config_with_other_problem"):
                # a configuration object whose problem field still describes ANOTHER problem (e.g. reused from an
                # earlier solver) passed together with the problem instance: the instance is what is solved
                other = make_problem(op["config_with_other_problem"])
                cfg = cls.Config(problem=other.config, **spec["solver_kw"])
                solver = cls(problem=problem, config=cfg)
            elif op.get("config_only"):
                # configuration-only construction: the solver builds the problem itself from the configuration
                cfg = cls.Config(problem=problem.config, **dict(spec["solver_kw"], **(op.get("kw") or {})))
                del problem
                solver = cls(config=cfg)
            elif op.get("via_config"):
                # the configuration-object route; "reuse": the SAME configuration object as for the previous solver of
                # this process, with some fields edited (a parameter sweep)
                kw = dict(spec["solver_kw"])
                if op["via_config"] == "reuse" and shared_cfg is not None:
                    cfg = shared_cfg
                    for k_, v_ in (op.get("kw") or {}).items():
                        setattr(cfg, k_, v_)
                else:
                    kw.update(op.get("kw") or {})
                    cfg = cls.Config(problem=problem.config, **kw)
                shared_cfg = cfg
                solver = cls(problem=problem, config=cfg)
            else:
                kw = dict(spec["solver_kw"])
                kw.update(op.get("kw") or {})
                solver = cls(problem, **kw)
            _verif.emit("x_new", solver=solver, config=config_text(solver),
                        ckpt_enabled=bool(solver.is_checkpointing_enabled),
                        ckpt_dir=str(getattr(solver, "checkpoint_dir", "") or ""))
        elif name == "save_as":
            # the user saves through the public save(step) with a label of their own (a milestone number)
            if solver is None:
                continue
            _verif.emit("x_user_save_begin", label=int(op["label"]))
            try:
                solver.save(int(op["label"]))
            except Exception as ex:
                _verif.emit("x_solve_failed", exc=type(ex).__name__, msg="save(label): " + str(ex)[:200])
            _verif.emit("x_user_save_end")
        elif name == "sleep":
            import time
            time.sleep(float(op["s"]))
        elif name == "restore":
            kw = {}
            if op.get("step") is not None:
                kw["step"] = op["step"]
            if op.get("new_dir") is not None:
                kw["new_checkpoint_dir"] = op["new_dir"]
            if op.get("freq") is not None:
                kw["checkpoint_frequency"] = op["freq"]
            if op.get("max") is not None:
                kw["max_checkpoints"] = op["max"]
            if op.get("async") is not None:
                kw["enable_async_checkpointing"] = op["async"]
            rcls = solver_class(op["via_class"]) if op.get("via_class") else cls
            try:
                if op.get("positional"):
                    # the documented parameter order, passed positionally
                    solver = rcls.restore(op["dir"], op.get("step"), op.get("new_dir"), op.get("freq"), op.get("max"),
                                          op.get("async"))
                else:
                    # restore() is a class method of the shared mixin: called through ANY solver class it rebuilds the
                    # solver named in the directory's configuration
                    solver = rcls.restore(op["dir"], **kw)
                _verif.emit("x_restore_ok", solver=solver, config=config_text(solver),
                            req=op.get("step"),
                            freq=int(solver.checkpoint_frequency), maxkeep=int(solver.max_checkpoints),
                            is_async=bool(solver.enable_async_checkpointing),
                            ckpt_dir=str(getattr(solver, "checkpoint_dir", "")),
                            ckpt_enabled=bool(solver.is_checkpointing_enabled),
                            dtype=str(np.asarray(solver.values).dtype))
            except Exception as ex:
                _verif.emit("x_restore_failed", exc=type(ex).__name__, msg=str(ex)[:300],
                            req=op.get("step"))
                solver = None
        elif name == "load":
            problem = make_problem(spec["problem"])
            solver = cls(problem, **dict(spec["solver_kw"], **(op.get("kw") or {})))
            _verif.emit("x_new", solver=solver, config=config_text(solver),
                        ckpt_enabled=bool(solver.is_checkpointing_enabled))
            try:
                solver.load_checkpoint(op["dir"], step=op.get("step"))
                _verif.emit("x_restore_ok", solver=solver, config="", req=op.get("step"),
                            freq=int(solver.checkpoint_frequency), maxkeep=int(solver.max_checkpoints),
                            is_async=bool(solver.enable_async_checkpointing),
                            ckpt_dir=str(getattr(solver, "checkpoint_dir", "")),
                            ckpt_enabled=bool(solver.is_checkpointing_enabled),
                            dtype=str(np.asarray(solver.values).dtype))
            except Exception as ex:
                _verif.emit("x_restore_failed", exc=type(ex).__name__, msg=str(ex)[:300],
                            req=op.get("step"))
                solver = None
        elif name == "load_same":
            # load_checkpoint() on the solver object that is already in use (e.g. roll back to an earlier step)
            if solver is None:
                continue
            try:
                solver.load_checkpoint(op["dir"], step=op.get("step"))
                _verif.emit("x_restore_ok", solver=solver, config="", req=op.get("step"),
                            freq=int(solver.checkpoint_frequency), maxkeep=int(solver.max_checkpoints),
                            is_async=bool(solver.enable_async_checkpointing),
                            ckpt_dir=str(getattr(solver, "checkpoint_dir", "")),
                            ckpt_enabled=bool(solver.is_checkpointing_enabled),
                            dtype=str(np.asarray(solver.values).dtype))
            except Exception as ex:
                _verif.emit("x_restore_failed", exc=type(ex).__name__, msg=str(ex)[:300], req=op.get("step"))
        elif name == "solve":
            if solver is None:
                continue
            try:
                solver.solve(max_iterations=op["k"])
            except Exception as ex:
                _verif.emit("x_solve_failed", exc=type(ex).__name__, msg=str(ex)[:300])
        elif name == "interloper":
            # an unrelated solver instance (never solved): global logging / precision state must not matter
            from mdpax.problems import Forest
            from mdpax.solvers import ValueIteration as _VI
            _VI(Forest(S=3), verbose=op.get("verbose", 3), gamma=0.5)
        elif name == "wait":
            # every solver created in this process may still have a write in flight
            for sv in created + ([solver] if solver is not None and solver not in created else []):
                if getattr(sv, "checkpoint_manager", None) is not None:
                    try:
                        sv.checkpoint_manager.wait_until_finished()
                    except Exception as ex:
                        _verif.emit("x_solve_failed", exc=type(ex).__name__, msg="wait_until_finished: " + str(ex)[:200])
            _verif.emit("x_waited")
        elif name == "copy":
            # a backup of the directory taken at rest (the caller waits first)
            import shutil
            shutil.copytree(op["src"], op["dst"])
            _verif.emit("x_copy", src=op["src"], dst=op["dst"])
        elif name == "list":
            d = op["dir"]
            if d == "@SOLVER":
                d = str(getattr(solver, "checkpoint_dir", "") or "")
            _verif.emit("x_listing", dir=d, **listing(d))
    _verif.emit("x_exit")


if __name__ == "__main__":
    main()
