"""Worker: real build_transition_and_reward_matrices on table MDPs (rows may be deficient).

stdin: {"jobs": [{"mdp": table MDP, "tol": [tn, td]}...], "out": path}
"""
import json
import re
import sys
from fractions import Fraction

import jax

jax.config.update("jax_enable_x64", True)
import numpy as np  # noqa: E402

from harness import tabular as T  # noqa: E402


def observe(job):
    mdp = job["mdp"]
    tn, td = job["tol"]
    ns, na, ne, PD = mdp["ns"], mdp["na"], mdp["ne"], mdp["PD"]
    K = int(job.get("K", 41))
    fk = job.get("fk") or [[[0] * ne for _ in range(na)] for _ in range(ns)]
    tf = int(job.get("tf", 0))
    if job.get("fk"):
        # probabilities pk/PD + fk * 2^-K: exactly representable, and every partial sum is too
        fine = np.array(fk, dtype=np.float64) * 2.0 ** -K
        base = T.make_problem(mdp)
        cls = type(base)
        tab = np.array(mdp["pk"], dtype=np.float64) / PD + fine
        tab = np.concatenate([tab, tab[:1]])          # ghost row (vectors outside the state space), as in tabular.py

        class FineProblem(cls):
            def random_event_probability(self, state, action, random_event):
                import jax.numpy as jnp
                return jnp.asarray(tab)[self._row(state), self._aidx(action), self._eidx(random_event)]
        prob = FineProblem()
    elif job.get("forest"):
        from mdpax.problems import Forest
        prob = Forest(**job["forest"])       # the tables in job["mdp"] are the documented Forest dynamics
    else:
        prob = T.make_problem(mdp)
    rs = 2 ** mdp["rexp"]
    m = {"ns": ns, "na": na, "ne": ne, "next": [[[n + 1 for n in row] for row in sa] for sa in mdp["next"]],
         "rew": mdp["rew"], "pk": mdp["pk"], "PD": PD, "GN": 1, "GD": 2}
    o = {"m": m, "tn": tn, "td": td, "fk": fk, "tf": tf, "K": K, "outcome": "ok", "errs": 0, "erra": 0, "P": [], "R": [], "pok": False,
         "rok": False, "unit": False, "propok": False, "shapeok": False, "msg": ""}
    # earlier calls on the SAME problem instance with other tolerances (their outcomes are not judged here): a call's
    # outcome must depend on its own tolerance only
    for ptn, ptd in job.get("pre_tols", []):
        try:
            prob.build_transition_and_reward_matrices(normalization_tolerance=ptn / ptd)
        except ValueError:
            pass
    try:
        P, R = prob.build_transition_and_reward_matrices(normalization_tolerance=tn / td + tf * 2.0 ** -K)
    except ValueError as ex:
        o["outcome"] = "error"
        o["msg"] = str(ex)[:200]
        mm = re.search(r"state (\d+), action (\d+)", str(ex))
        if mm:
            o["errs"], o["erra"] = int(mm.group(1)) + 1, int(mm.group(2)) + 1
        return o
    P = np.asarray(P, dtype=np.float64)
    R = np.asarray(R, dtype=np.float64)
    o["shapeok"] = P.shape == (na, ns, ns) and R.shape == (ns, na)
    if not o["shapeok"]:
        return o
    o["unit"] = bool(np.all(np.abs(P.sum(axis=-1) - 1.0) <= 1e-12))
    # exact integer projection (meaningful when every row sums to PD exactly)
    Pi = P * PD
    o["pok"] = bool(np.all(Pi == np.round(Pi)))
    o["P"] = [[[int(round(x)) for x in row] for row in mat] for mat in Pi] if o["pok"] else []
    Ri = R * PD * rs
    o["rok"] = bool(np.all(Ri == np.round(Ri)))
    o["R"] = [[int(round(x)) for x in row] for row in Ri] if o["rok"] else []
    # proportionality for renormalised rows: P[a,s,t] * rowsum == accumulated numerator / PD
    acc = np.zeros((na, ns, ns))
    for s in range(ns):
        for a in range(na):
            for e in range(ne):
                acc[a, s, mdp["next"][s][a][e]] += mdp["pk"][s][a][e] + fk[s][a][e] * 2.0 ** -K * PD
    rows = acc.sum(axis=-1, keepdims=True)
    with np.errstate(divide="ignore", invalid="ignore"):
        expect = np.where(rows > 0, acc / np.where(rows > 0, rows, 1.0), 0.0)
    o["propok"] = bool(np.all(np.abs(P - expect) <= 1e-12))
    return o


def main():
    req = json.load(sys.stdin)
    out = []
    for job in req["jobs"]:
        out.append(observe(job))
    json.dump(out, open(req["out"], "w"))


if __name__ == "__main__":
    main()
