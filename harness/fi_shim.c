/* Fault-injection shim (LD_PRELOAD): counts file-system mutations under FI_WATCH with a process-global
 * atomic sequence number, logs them to FI_LOG, and SIGKILLs the process when the count reaches
 * FI_KILL_AT (before the K-th operation takes effect).  Interposes both Python's and tensorstore's calls. */
#define _GNU_SOURCE
#include <dlfcn.h>
#include <fcntl.h>
#include <signal.h>
#include <stdatomic.h>
#include <stdio.h>
#include <stdlib.h>
#include <string.h>
#include <sys/stat.h>
#include <sys/types.h>
#include <unistd.h>

static atomic_long seq = 0;

static int watched(const char *p) {
  const char *w = getenv("FI_WATCH");
  return w && *w && p && strstr(p, w) != NULL;
}

static void note(const char *op, const char *a, const char *b) {
  long n = atomic_fetch_add(&seq, 1) + 1;
  const char *log = getenv("FI_LOG");
  if (log && *log) {
    char buf[1024];
    int len = snprintf(buf, sizeof buf, "%ld %s %s %s\n", n, op, a ? a : "-", b ? b : "-");
    int fd = open(log, O_WRONLY | O_CREAT | O_APPEND, 0644);
    if (fd >= 0) { if (write(fd, buf, len) < 0) {} close(fd); }
  }
  const char *dl = getenv("FI_DELAY_US");
  if (dl && atol(dl) > 0) usleep((useconds_t)atol(dl));   /* slow file system: stretches the writer thread */
  const char *k = getenv("FI_KILL_AT");
  if (k && atol(k) > 0 && n == atol(k)) kill(getpid(), SIGKILL);
}

#define REAL(name) static __typeof__(name) *real = NULL; if (!real) real = dlsym(RTLD_NEXT, #name)

int rename(const char *a, const char *b) { REAL(rename); if (watched(a) || watched(b)) note("rename", a, b); return real(a, b); }
int renameat(int fa, const char *a, int fb, const char *b) { REAL(renameat); if (watched(a) || watched(b)) note("rename", a, b); return real(fa, a, fb, b); }
int renameat2(int fa, const char *a, int fb, const char *b, unsigned int fl) { REAL(renameat2); if (watched(a) || watched(b)) note("rename", a, b); return real(fa, a, fb, b, fl); }
int mkdir(const char *a, mode_t m) { REAL(mkdir); if (watched(a)) note("mkdir", a, NULL); return real(a, m); }
int mkdirat(int fd, const char *a, mode_t m) { REAL(mkdirat); if (watched(a)) note("mkdir", a, NULL); return real(fd, a, m); }
int unlink(const char *a) { REAL(unlink); if (watched(a)) note("unlink", a, NULL); return real(a); }
int unlinkat(int fd, const char *a, int fl) { REAL(unlinkat); if (watched(a)) note("unlink", a, NULL); return real(fd, a, fl); }

/* Re-opening an existing, non-empty file with O_TRUNC destroys its content before the new content is written:
 * the mutation is noted AFTER the open took effect, so a kill here leaves the file empty. */
#include <stdarg.h>
static int trunc_existing(const char *p, int flags) {
  struct stat st;
  return watched(p) && (flags & O_TRUNC) && (flags & (O_WRONLY | O_RDWR)) && stat(p, &st) == 0 && st.st_size > 0;
}
#define OPEN_BODY(name, CALL)                                              \
  mode_t m = 0;                                                            \
  if (flags & (O_CREAT | O_TMPFILE)) { va_list ap; va_start(ap, flags); m = va_arg(ap, mode_t); va_end(ap); } \
  int t = trunc_existing(a, flags);                                        \
  int fd = CALL;                                                           \
  if (t && fd >= 0) note("truncate", a, NULL);                             \
  return fd;
int open(const char *a, int flags, ...) { REAL(open); OPEN_BODY(open, real(a, flags, m)) }
int open64(const char *a, int flags, ...) { REAL(open64); OPEN_BODY(open64, real(a, flags, m)) }
int openat(int d, const char *a, int flags, ...) { REAL(openat); OPEN_BODY(openat, real(d, a, flags, m)) }
int openat64(int d, const char *a, int flags, ...) { REAL(openat64); OPEN_BODY(openat64, real(d, a, flags, m)) }
int rmdir(const char *a) { REAL(rmdir); if (watched(a)) note("rmdir", a, NULL); return real(a); }
