"""Job generators shared by the solver checks."""
from __future__ import annotations

import random

from . import tabular as T

GAMMAS = [[1, 4], [1, 2], [3, 4]]


def gadget(rng, na, ne, PD, rmax=3, ns=None, dup=False, v0max=0):
    ns = ns or rng.randint(1, 3)
    return T.random_mdp(rng, ns=ns, na=na, ne=ne, PD=PD, rmax=rmax, v0max=v0max, dup_action=dup,
                        plain_render=True)


def union(rng, n_gadgets, na=None, ne=None, PD=None, rmax=3, v0max=0, dup=False, plain=False,
          chain=True):
    na = na or rng.randint(2, 3)
    ne = ne or rng.randint(1, 3)
    PD = PD or rng.choice([1, 2, 4])
    parts = [gadget(rng, na, ne, PD, rmax, dup=dup, v0max=v0max) for _ in range(n_gadgets)]
    if chain:
        # a dependency chain gadget: state i moves to i+1 (every old/new read distinction matters)
        L = rng.randint(3, 6)
        ch = T.random_mdp(rng, ns=L, na=na, ne=ne, PD=PD, rmax=rmax, v0max=v0max, plain_render=True)
        for s in range(L):
            for a in range(na):
                ch["next"][s][a] = [min(L - 1, s + 1) if e % 2 == 0 else max(0, s - 1)
                                    for e in range(ne)]
        if dup and na >= 2:
            for s in range(L):
                for key in ("next", "rew", "pk"):
                    ch[key][s][na - 1] = list(ch[key][s][0])
        parts.insert(rng.randrange(len(parts) + 1), ch)
    m = T.union_mdp(parts, rng, plain_render=plain)
    if dup and na >= 2:
        m["render"]["avecs"][na - 1] = list(m["render"]["avecs"][0])
    return m


def rand_values(rng, ns, vmax=8, exp=None):
    exp = rng.choice([0, 0, 1, 2]) if exp is None else exp
    return [[rng.randint(-vmax * 2 ** exp, vmax * 2 ** exp), exp] for _ in range(ns)]


def unichain(rng, ns=None, na=2, ne=2, PD=None, rmax=3, v0max=0, plain=True):
    """Unichain aperiodic MDP: every (s,a) reaches the sink (last state) with positive probability,
    and the sink has a self-loop with positive probability."""
    ns = ns or rng.randint(2, 7)
    PD = PD or rng.choice([2, 4])
    m = T.random_mdp(rng, ns=ns, na=na, ne=ne, PD=PD, rmax=rmax, v0max=v0max, plain_render=plain)
    for s in range(ns):
        for a in range(na):
            k = rng.randint(1, PD - 1)
            row = [0] * ne
            row[0], row[ne - 1] = PD - k, k
            m["pk"][s][a] = row
            m["next"][s][a][ne - 1] = ns - 1
            if s == ns - 1:
                m["next"][s][a][0] = rng.randrange(ns)
    return m


def ring(rng, p, extra=0, na=2, rmax=3, v0max=0):
    """Deterministic unichain MDP whose recurrent class is a ring of period p (+ transient states)."""
    ns = p + extra
    m = T.random_mdp(rng, ns=ns, na=na, ne=1, PD=1, rmax=rmax, v0max=v0max, plain_render=True)
    for s in range(ns):
        for a in range(na):
            m["pk"][s][a] = [1]
            m["next"][s][a] = [(s + 1) % p if s < p else rng.randrange(ns if s > p else p)]
            if s >= p:
                m["next"][s][a] = [rng.randrange(s)]  # transient: strictly towards lower indices
    return m


def fix_dups(m):
    """Actions with identical vectors must have identical tables (the vector IS the action)."""
    av = m["render"]["avecs"]
    for a in range(m["na"]):
        for b in range(a):
            if av[a] == av[b]:
                for s in range(m["ns"]):
                    for key in ("next", "rew", "pk"):
                        m[key][s][a] = list(m[key][s][b])
                break
    return m


def corridors(rng, N, lengths, PD=1):
    """A LARGE deterministic table MDP: N - sum(lengths+1) inert states (both actions loop in place, reward 0)
    followed by corridors.  In a corridor action 1 steps right and action 0 stays; only its absorbing last state
    pays.  From the all-zero start policy iteration switches exactly one more state per corridor and iteration, so
    improvement steps that change very few states out of very many occur for max(lengths) iterations."""
    nxt = [[[s], [s]] for s in range(N)]
    rew = [[[0], [0]] for _ in range(N)]
    pk = [[[1], [1]] for _ in range(N)]
    pos = N
    for L in lengths:
        end = pos - 1
        rew[end] = [[rng.randint(1, 3)], [rng.randint(1, 3)]]
        rew[end][1] = list(rew[end][0])
        for i in range(L):
            s_ = end - L + i
            nxt[s_][1] = [s_ + 1]
        pos = end - L
    m = {"ns": N, "na": 2, "ne": 1, "next": nxt, "rew": rew, "pk": pk, "PD": 1, "rexp": 0, "v0": [0] * N, "v0exp": 0}
    m["render"] = T.default_render(N, 2, 1, rng, plain=True)
    return m


def add_rare(rng, m, pexp=127):
    """Give the table MDP a rare catastrophic event (probability 2^-pexp, reward of magnitude 2^pexp): see
    tabular.make_problem.  m's tables become the model-level equivalent (the event's contribution c[s][a] is added to
    every listed event's reward); actions with identical vectors get identical contributions."""
    av = m["render"]["avecs"]
    first = {}
    for a in range(m["na"]):
        first.setdefault(tuple(av[a]), a)
    c = []
    for s in range(m["ns"]):
        row = [rng.choice([-3, -2, -1, 1, 2, 3]) for _ in range(m["na"])]
        row = [row[first[tuple(av[a])]] for a in range(m["na"])]
        c.append(row)
    for s in range(m["ns"]):
        for a in range(m["na"]):
            m["rew"][s][a] = [r + c[s][a] for r in m["rew"][s][a]]
    m["rare"] = {"c": c, "pexp": pexp, "next": rng.randrange(m["ns"])}
    return m


def bits_and_ring(rng, q=3, nstoch=3):
    """Union of a deterministic ring of period q (keeps the period-span measure of a solver with another period from
    ever falling: no early stop) and a stochastic component with probabilities 1/2 (every sweep adds one fractional
    bit to its values): undiscounted runs on it reach iterates with more than 24 significant bits inside the exactly
    judged range."""
    r = ring(rng, q, extra=0, na=2, rmax=2)
    for s in range(r["ns"]):
        for a in range(2):
            r["next"][s][a] = r["next"][s][a] * 2
            r["rew"][s][a] = [r["rew"][s][a][0] + (3 if s == 0 else 0)] * 2      # unequal rewards around the ring
            r["pk"][s][a] = [2, 0]
    r["ne"], r["PD"] = 2, 2
    u = T.random_mdp(rng, ns=nstoch, na=2, ne=2, PD=2, rmax=2, sparse=False, plain_render=True)
    for s in range(nstoch):
        for a in range(2):
            u["pk"][s][a] = [1, 1]
    return T.union_mdp([r, u], rng, plain_render=True)


def int_valued_pol0(rng, m):
    """If the rendering has float-valued actions, choose the supplied initial policy among the actions whose vectors
    are whole numbers and let the problem return them as an integer array (render.pol0_as_int)."""
    r = m["render"]
    if int(r.get("adiv", 1)) not in (2, 4):
        r["adiv"], r["aoffset"] = rng.choice([2, 4]), 0          # make the action space float-valued (half / quarter units)
    adiv = int(r["adiv"])
    whole = [a for a, v in enumerate(r["avecs"]) if all((x + int(r.get("aoffset", 0))) % adiv == 0 for x in v)]
    if not whole:
        return False
    m["pol0"] = [rng.choice(whole) for _ in range(m["ns"])]
    r["has_init_policy"] = True
    r["pol0_as_int"] = True
    return True


def add_unlisted_actions(rng, m, k=1):
    """Give the problem k action vectors that its transition function understands but its action space does not list
    (outside the bounding box of the listed ones), with tables of their own, and let the supplied initial policy use
    them in some states."""
    av = m["render"]["avecs"]
    na, ne, ns = m["na"], m["ne"], m["ns"]
    top = [max(v[d] for v in av) for d in range(len(av[0]))]
    for j in range(k):
        av.append([t + 1 + j for t in top])
        for s in range(ns):
            src = rng.randrange(na)
            m["next"][s].append([rng.randrange(ns) for _ in range(ne)])
            m["rew"][s].append([r + rng.choice([-1, 1, 2]) for r in m["rew"][s][src]])
            m["pk"][s].append(list(m["pk"][s][src]))
    m["nax"] = na + k
    m["render"]["has_init_policy"] = True
    m["pol0"] = [rng.randrange(na + k) if rng.random() < 0.6 else na + rng.randrange(k) for _ in range(ns)]
    return m


def dag(rng, depth=None, width=2, na=2, rmax=4):
    """Episodic (acyclic) deterministic MDP: layers of states, every action moves one layer down, the last layer is one
    absorbing state with reward 0.  Value iteration reaches the exact fixed point after depth+1 sweeps, so the sweep at
    which it stops has a convergence measure of exactly 0, while the greedy policy keeps changing until then (rewards
    are largest near the bottom: the first sweeps prefer other actions than the final values do)."""
    depth = depth or rng.randint(3, 6)
    layers = [[l * width + j for j in range(width)] for l in range(depth)]
    sink = depth * width
    ns = sink + 1
    m = T.random_mdp(rng, ns=ns, na=na, ne=1, PD=1, rmax=rmax, plain_render=True)
    for l, layer in enumerate(layers):
        below = layers[l + 1] if l + 1 < depth else [sink]
        for s in layer:
            for a in range(na):
                m["next"][s][a] = [rng.choice(below)]
                m["rew"][s][a] = [rng.randint(0, rmax) * (2 if l == depth - 1 else 1)]
                m["pk"][s][a] = [1]
    for a in range(na):
        m["next"][sink][a], m["rew"][sink][a], m["pk"][sink][a] = [sink], [0], [1]
    # a trap in the first layer's first state: action 0 pays 3 at once and ends; action 1 pays nothing for two steps and
    # then 20.  After ONE sweep the greedy choice is action 0, for the final values it is action 1 (gamma >= 1/2).
    if depth >= 3:
        t0, t1, t2 = layers[0][0], layers[1][0], layers[2][0]
        for a in range(na):
            m["next"][t0][a], m["rew"][t0][a] = [sink], [0]
            m["next"][t1][a], m["rew"][t1][a] = [t2], [0]
            m["next"][t2][a], m["rew"][t2][a] = [sink], [20]
        m["rew"][t0][0] = [3]
        m["next"][t0][1] = [t1]
    return m


def descending_chain(rng, N, hi, lo):
    """LARGE deterministic MDP: inert states except a chain hi -> hi-1 -> ... -> lo (action 1 steps DOWN, action 0
    stays), lo absorbing and paying.  In natural order every chain state reads a state updated EARLIER in the same
    sweep, across whatever boundaries lie between lo and hi (batches, scan segments, devices)."""
    nxt = [[[s], [s]] for s in range(N)]
    rew = [[[0], [0]] for _ in range(N)]
    pk = [[[1], [1]] for _ in range(N)]
    rew[lo] = [[2], [2]]
    for s_ in range(lo + 1, hi + 1):
        nxt[s_][1] = [s_ - 1]
        rew[s_][1] = [rng.choice([0, 1])]
    m = {"ns": N, "na": 2, "ne": 1, "next": nxt, "rew": rew, "pk": pk, "PD": 1, "rexp": 0, "v0": [0] * N, "v0exp": 0}
    m["render"] = T.default_render(N, 2, 1, rng, plain=True)
    return m
