"""Shared by C14 and C15: tables of the real shipped problems judged by InventoryTrace.tla."""
from __future__ import annotations

import concurrent.futures as cf
import json
import random

from . import common as C

COEFS = {
    "forest": [[4.0, 2.0, 1.0], [2.5, 8.0, 1.0], [100.0, 0.5, 1.0]],
    # (the last set of each perishable problem has coefficients of BOTH signs: a salvage value for expired units, a
    # rebate on orders - "costs" the constructors accept as negative numbers)
    "demoor": [[-3.0, -5.0, -7.0, -1.0], [-0.5, -2.0, -4.0, -0.25], [-1.0, -16.0, -2.0, -8.0], [0.5, -4.0, 2.0, -1.0]],
    "hendrix": [[1.0, 1.0, -0.5, -0.5], [2.0, 3.0, -0.25, -1.5], [1.5, 0.75, -1.0, -0.125], [2.0, -1.0, 0.5, -0.75]],
    "mirjalili": [[0.0, -10.0, -20.0, -5.0, -1.0], [-1.0, -4.0, -3.0, -0.5, -2.0], [-0.25, -8.0, -1.0, -16.0, -0.5],
                  [0.5, -6.0, -2.0, 3.0, 0.25]],
}


def params(tier, rng):
    out = []
    for S in ([1, 2, 3, 8, 40] if tier == "quick" else list(range(1, 13)) + [40, 100]):
        out.append({"kind": "forest", "S": S, "p": rng.choice([0.0, 0.25, 0.5, 1.0])})
    # long useful lives / lead times with a unit order limit keep the tables small; demand far above the order limit
    dm = [(6, 1, 1, 3), (1, 6, 1, 2), (3, 5, 1, 2), (7, 2, 1, 2), (2, 1, 2, 7), (1, 1, 128, 1), (1, 1, 2, 3), (2, 1, 3, 4), (2, 2, 2, 3), (3, 1, 2, 3), (2, 3, 2, 2), (1, 4, 2, 2), (4, 1, 1, 2),
          (5, 1, 1, 2), (3, 3, 1, 3), (2, 4, 1, 2), (3, 2, 2, 5)]
    if tier == "thorough":
        dm += [(m, L, Q, D) for m in range(1, 6) for L in range(1, 5) for Q in (1, 2) for D in (2, 4)
               if (Q + 1) ** (L - 1 + m) <= 800]
        dm += [(2, 1, 5, 7), (3, 2, 3, 4), (4, 2, 2, 3)]
    for (m, L, Q, D) in sorted(set(dm)):
        for fifo in (True, False):
            out.append({"kind": "demoor", "m": m, "L": L, "Q": Q, "D": D, "fifo": fifo})
    hx = [(1, 2, 2), (2, 2, 1), (2, 1, 2), (2, 2, 2), (3, 1, 1), (1, 3, 1), (4, 1, 1)]
    if tier == "thorough":
        hx += [(3, 2, 1), (3, 1, 2), (2, 3, 2), (2, 2, 3), (1, 4, 3)]
    for (m, qa, qb) in hx:
        out.append({"kind": "hendrix", "m": m, "Qa": qa, "Qb": qb})
    mj = [(1, 2, 2), (2, 2, 3), (3, 2, 2), (2, 3, 2), (4, 1, 2), (6, 1, 3), (2, 2, 6)]
    if tier == "thorough":
        mj += [(3, 3, 3), (4, 2, 2), (2, 4, 4), (5, 1, 1), (3, 2, 4)]
    for (m, Q, D) in mj:
        out.append({"kind": "mirjalili", "m": m, "Q": Q, "D": D})
    # spaces too large to list (> 2^20 rows): sampled rows, every action and event on them
    out.append({"kind": "demoor", "m": 3, "L": 1, "Q": 101, "D": 2, "fifo": True, "sample": 30, "sample_seed": rng.randrange(10 ** 6)})
    # beyond 2^24 states (integers that single precision cannot hold), in a process without 64-bit mode and in one with
    out.append({"kind": "forest", "S": 2 ** 24 + 9, "p": 0.25, "sample": 60, "sample_seed": rng.randrange(10 ** 6), "no_x64": True})
    out.append({"kind": "demoor", "m": 2, "L": 1, "Q": 2, "D": 3, "fifo": True, "no_x64": True})
    if tier == "thorough":
        out.append({"kind": "forest", "S": 2 ** 24 + 9, "p": 0.5, "sample": 200, "sample_seed": rng.randrange(10 ** 6)})
        out.append({"kind": "demoor", "m": 2, "L": 3, "Q": 32, "D": 3, "fifo": False, "sample": 60, "sample_seed": rng.randrange(10 ** 6)})
        out.append({"kind": "mirjalili", "m": 8, "Q": 5, "D": 1, "sample": 12, "sample_seed": rng.randrange(10 ** 6)})
        # (no large Hendrix instance: one state alone has ~10^3 actions x ~4*10^3 events to judge)
        out.append({"kind": "forest", "S": 2 ** 20 + 3, "p": 0.25, "sample": 200, "sample_seed": rng.randrange(10 ** 6)})
    # the same dynamics after the problem has been rebuilt from its configuration through YAML (the route restore() takes):
    # strings, tuples and numbers come back as other objects / types
    rebuilt = [dict(P, route="yaml") for P in rng.sample([q for q in out if not q.get("sample")], 12 if tier == "quick" else 60)]
    for kind in ("forest", "demoor", "hendrix", "mirjalili"):
        if not any(P["kind"] == kind for P in rebuilt):
            rebuilt.append(dict(next(q for q in out if q["kind"] == kind), route="yaml"))
    if not any(P["kind"] == "demoor" and P["fifo"] for P in rebuilt):
        rebuilt.append(dict(next(q for q in out if q["kind"] == "demoor" and q["fifo"]), route="yaml"))
    out += rebuilt
    for P in out:
        P["coef"] = rng.choice(COEFS[P["kind"]])
    return out


def observe(ps):
    # parameterisations observed in a process that never switches 64-bit mode on get a worker of their own
    plain = [P for P in ps if not P.get("no_x64")]
    single = [P for P in ps if P.get("no_x64")]
    nproc = min(C.NCPU, 12, max(1, len(plain)))
    chunks = [plain[i::nproc] for i in range(nproc)] + ([single] if single else [])
    nproc = len(chunks)
    with C.Scratch("verif-inv-") as d:
        def work(i):
            out = d / f"obs{i}.json"
            p = C.run_python(["-m", "harness.workers.inventory_worker"],
                             extra_env={"VERIF_WORKER_NO_X64": "1"} if chunks[i] and chunks[i][0].get("no_x64") else None,
                             input_json={"params": chunks[i], "out": str(out)}, cwd=str(C.VERIF))
            if p.returncode != 0:
                raise C.MachineryError("inventory worker failed: " + p.stderr[-2000:])
            return json.loads(out.read_text())
        with cf.ThreadPoolExecutor(nproc) as ex:
            return [o for part in ex.map(work, range(nproc)) for o in part]


def run(prop, tier):
    rep = C.Report(prop, tier)
    rng = random.Random(C.seed() + 14)
    res = C.run_tlc("Inventory", "Inventory.cfg" if tier == "quick" else "InventoryThorough.cfg", coverage=True)
    C.tlc_must_be_clean(res, "Inventory")
    rep.add_tlc("Inventory (documented dynamics as transition systems over the parameter grid)", res)
    if res.invariant_violated:
        rep.violation("spec:Inventory " + ",".join(res.violated), {"tlc": res.out[-3000:]})
    ps = params(tier, rng)
    obs = observe(ps)
    good = []
    for o in obs:
        if "crash" in o:
            rep.case(o["P"])
            rep.violation(f"{prop} problem construction/evaluation failed: {o['crash']} :: {o['P']}", o)
        else:
            good.append(o)
    payload = [{k: v for k, v in o.items() if k != "nonfinite_or_negative_prob"} for o in good]
    acc, rej, drift, results = C.judge_traces("InventoryTrace", payload, chunk=12, what=prop, timeout=3000)
    for r in results:
        rep.add_tlc("InventoryTrace", r)
    rep.traces = len(good)
    triples = positive = 0
    for i, o in enumerate(good):
        n = len(o["next"])
        triples += n
        positive += sum(o["ppos"])
        rep.case(o["P"], nontrivial=n > 4)
        for fields in rej.get(i, []):
            p_, clause, detail = fields[0], fields[1], fields[2] if len(fields) > 2 else None
            if p_ != prop:
                rep.notes.append(f"(rejection under {p_}, reported by that property's check: {o['P']})")
                continue
            rep.violation(f"{prop} {clause} :: {o['P']}",
                          {"params": o["P"], "clause": clause, "first_failing <state, action, event, next, reward>": detail})
    rep.notes = sorted(set(rep.notes))[:10]
    rep.extra.update({"triples_evaluated_on_the_real_transition_function": triples,
                      "triples_with_positive_probability": positive})
    for o in good[:: max(1, len(good) // 4)][:4]:
        rep.sample({"params": o["P"], "n_states": o["nstates"], "n_actions": len(o["actions"]),
                    "n_events": len(o["events"]), "first_triple": {"state": o["states"][0], "action": o["actions"][0],
                                                                   "event": o["events"][0], "next": o["next"][0], "reward_int": o["rew"][0]}})
    rep.exhaustive = True
    rep.assumptions = ["parameter grid as listed in harness/invlib.py; dyadic cost coefficients (defaults included)",
                       "probabilities are used only through their sign (> 0)"]
    return rep


def finish(rep, rule):
    rep.rule = rule
    return rep.finish()
