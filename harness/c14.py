"""C14 - shipped problems are closed and their state index is consistent."""
from . import invlib


def run(tier):
    rep = invlib.run("C14", tier)
    return invlib.finish(rep, "design: TLC explores the documented dynamics of the four problems as transition systems from EVERY state, "
                         "action and supported event over the parameter grid with closure, index-consistency and size invariants; "
                         "binding: for each parameterisation the real spaces, state_to_index on every state and every successor and "
                         "transition() on EVERY (state, action, event) triple are recorded and InventoryTrace.tla requires documented "
                         "spaces, index(state)=own row and, for every positive-probability triple, a listed successor whose index "
                         "points back. distinct = distinct parameterisation; non-trivial = more than four triples")
