"""Scenario builders shared by C09-C12."""
from __future__ import annotations

import random

from . import gen

BIG = 3000


def problems(rng: random.Random):
    """(name, problem spec, fullconfig, kinds it suits, solver kwargs per kind)."""
    tab = gen.union(random.Random(11), 4, PD=2, v0max=1, plain=True)
    tab["render"]["aoffset"] = 2 ** 25 + 1       # integer actions that single precision cannot hold
    intpol = gen.union(random.Random(14), 4, PD=2, na=3, v0max=1, plain=True, chain=False)
    gen.int_valued_pol0(random.Random(15), intpol)   # float action space (half units), supplied initial policy returned as integers
    uni = gen.unichain(random.Random(12), ns=5, PD=2, v0max=2)
    uni["render"]["v0_f32"] = True        # initial values supplied in single precision
    ring = gen.ring(random.Random(13), 3, extra=2)
    return {
        "forest": ({"type": "forest", "S": 8, "r1": 4.0, "r2": 2.0, "p": 0.1}, True),
        "forest12": ({"type": "forest", "S": 12, "p": 0.25}, True),
        "de_moor": ({"type": "de_moor", "max_demand": 6, "max_useful_life": 2, "lead_time": 1,
                     "max_order_quantity": 4, "issue_policy": "fifo"}, True),
        "hendrix": ({"type": "hendrix", "max_useful_life": 1, "max_order_quantity_a": 3,
                     "max_order_quantity_b": 3, "demand_poisson_mean_a": 1.5, "demand_poisson_mean_b": 1.0}, True),
        "mirjalili": ({"type": "mirjalili", "max_demand": 3, "max_useful_life": 2, "max_order_quantity": 3,
                       "useful_life_at_arrival_distribution_c_0": [1.0], "useful_life_at_arrival_distribution_c_1": [0.4]}, True),
        "tabular": ({"type": "tabular", "mdp": tab}, False),
        "tab_unichain": ({"type": "tabular", "mdp": uni}, False),
        "tab_ring": ({"type": "tabular", "mdp": ring}, False),
        "tab_intpol": ({"type": "tabular", "mdp": intpol}, False),
    }


def solver_kw(kind, pname):
    kw = {"verbose": 0, "max_batch_size": 64}
    if kind in ("VI", "SAVI", "PI"):
        kw.update({"gamma": 0.9, "epsilon": 0.01})
    if kind == "PI":
        kw.update({"gamma": 0.9, "epsilon": 0.01, "max_eval_iter": 20})
    if kind == "RVI":
        kw.update({"gamma": 1.0, "epsilon": 0.01})
    if kind == "PVI":
        kw.update({"gamma": 0.95, "epsilon": 0.01, "period": 2, "clear_value_history_on_convergence": False})
        if pname == "mirjalili":
            kw["period"] = 7
        if pname == "tab_ring":
            kw.update({"gamma": 1.0, "period": 3, "epsilon": 0.5})
    if kind == "SAVI":
        kw.update({"shuffle_states": False})
    return kw


def base_scenario(name, kind, pname, pspec, fullconfig, freq, keep, isasync, gens, **extra):
    kw = solver_kw(kind, pname)
    kw.update(extra.pop("kw", {}))
    sc = {"name": name, "kind": kind, "problem": pspec, "solver_kw": kw, "freq": freq, "keep": keep,
          "isasync": isasync, "fullconfig": fullconfig, "gens": gens,
          "refkey": f"{kind}-{pname}-{sorted(kw.items())}"}
    sc.update(extra)
    return sc


def restore_op(fullconfig, **kw):
    op = {"op": "restore" if fullconfig else "load", "dir": "@A"}
    op.update(kw)
    return op
