----------------------------- MODULE MatricesOps -----------------------------
(***************************************************************************)
(* Explicit matrices of an MDP given functionally (C17).  For a table MDP  *)
(* m (TabularMDP; probability rows need NOT sum to PD here):               *)
(*   PNum(m)[a][s][t] = sum of pk[s][a][e] over the events e leading from  *)
(*                      s to t under a          (transition entry * PD)    *)
(*   RNum(m)[s][a]    = sum_e pk[s][a][e] * rew[s][a][e]  (reward * PD)    *)
(*   RowSum(m, s, a)  = sum_e pk[s][a][e]                 (row sum * PD)   *)
(* The builder must raise an error naming a pair whose row sum deviates    *)
(* from one by more than the tolerance tol = tn/td, if there is one, and   *)
(* otherwise return matrices whose rows sum to one.                        *)
(***************************************************************************)
EXTENDS TabularMDP

PNum(m) ==
  [a \in Actions(m) |-> [s \in States(m) |-> [t \in States(m) |->
     SumTo([e \in Events(m) |-> IF m.next[s][a][e] = t THEN m.pk[s][a][e] ELSE 0], m.ne)]]]

RNum(m) ==
  [s \in States(m) |-> [a \in Actions(m) |->
     SumTo([e \in Events(m) |-> m.pk[s][a][e] * m.rew[s][a][e]], m.ne)]]

RowSum(m, s, a) == SumTo([e \in Events(m) |-> m.pk[s][a][e]], m.ne)

Deviates(m, s, a, tn, td) == Abs(RowSum(m, s, a) - m.PD) * td > tn * m.PD
SomeDeviates(m, tn, td) == \E s \in States(m) : \E a \in Actions(m) : Deviates(m, s, a, tn, td)
AllExact(m) == \A s \in States(m) : \A a \in Actions(m) : RowSum(m, s, a) = m.PD

(* ---- tolerances and deviations that differ by LESS than any coarse unit ---------------------------------- *)
(* Two-scale numbers: a coarse rational plus an integer number of fine units u, where u is so small that no  *)
(* number of fine units in play adds up to one coarse step 1/(PD*td) (the observer guarantees it, see        *)
(* FineNegligible in MatricesTrace).  Probabilities are pk/PD + fk*u, the tolerance is tn/td + tf*u.  Then   *)
(* |row sum - 1| > tolerance is decided lexicographically: coarse parts first, fine parts on a tie.          *)
FineSum(m, fk, s, a) == SumTo([e \in Events(m) |-> fk[s][a][e]], m.ne)
DeviatesF(m, fk, s, a, tn, td, tf) ==
  LET c == RowSum(m, s, a) - m.PD
      f == FineSum(m, fk, s, a)
      fa == IF c > 0 THEN f ELSE IF c < 0 THEN 0 - f ELSE Abs(f)       \* fine part of |deviation|
  IN \/ Abs(c) * td > tn * m.PD
     \/ Abs(c) * td = tn * m.PD /\ fa > tf
SomeDeviatesF(m, fk, tn, td, tf) == \E s \in States(m) : \E a \in Actions(m) : DeviatesF(m, fk, s, a, tn, td, tf)
NoFine(m) == [s \in States(m) |-> [a \in Actions(m) |-> [e \in Events(m) |-> 0]]]

(* the operator defined by the matrices: Den * (max_a R[s][a] + gamma * sum_t P[a][s][t] V[t]) *)
MatrixBackupNum(m, V) ==
  LET Pn == PNum(m)
      Rn == RNum(m)
  IN [s \in States(m) |->
        MaxTo([a \in Actions(m) |->
                 Rn[s][a] * m.GD + m.GN * SumTo([t \in States(m) |-> Pn[a][s][t] * V[t]], m.ns)], m.na)]
=============================================================================
