----------------------------- MODULE MatricesOps -----------------------------
(***************************************************************************)
(* Explicit matrices of an MDP given functionally (C17).  For a table MDP  *)
(* m (TabularMDP; probability rows need NOT sum to PD here):               *)
(*   PNum(m)[a][s][t] = sum of pk[s][a][e] over the events e leading from  *)
(*                      s to t under a          (transition entry * PD)    *)
(*   RNum(m)[s][a]    = sum_e pk[s][a][e] * rew[s][a][e]  (reward * PD)    *)
(*   RowSum(m, s, a)  = sum_e pk[s][a][e]                 (row sum * PD)   *)
(* The builder must raise an error naming a pair whose row sum deviates    *)
(* from one by more than the tolerance tol = tn/td, if there is one, and   *)
(* otherwise return matrices whose rows sum to one.                        *)
(***************************************************************************)
EXTENDS TabularMDP

PNum(m) ==
  [a \in Actions(m) |-> [s \in States(m) |-> [t \in States(m) |->
     SumTo([e \in Events(m) |-> IF m.next[s][a][e] = t THEN m.pk[s][a][e] ELSE 0], m.ne)]]]

RNum(m) ==
  [s \in States(m) |-> [a \in Actions(m) |->
     SumTo([e \in Events(m) |-> m.pk[s][a][e] * m.rew[s][a][e]], m.ne)]]

RowSum(m, s, a) == SumTo([e \in Events(m) |-> m.pk[s][a][e]], m.ne)

Deviates(m, s, a, tn, td) == Abs(RowSum(m, s, a) - m.PD) * td > tn * m.PD
SomeDeviates(m, tn, td) == \E s \in States(m) : \E a \in Actions(m) : Deviates(m, s, a, tn, td)
AllExact(m) == \A s \in States(m) : \A a \in Actions(m) : RowSum(m, s, a) = m.PD

(* the operator defined by the matrices: Den * (max_a R[s][a] + gamma * sum_t P[a][s][t] V[t]) *)
MatrixBackupNum(m, V) ==
  LET Pn == PNum(m)
      Rn == RNum(m)
  IN [s \in States(m) |->
        MaxTo([a \in Actions(m) |->
                 Rn[s][a] * m.GD + m.GN * SumTo([t \in States(m) |-> Pn[a][s][t] * V[t]], m.ns)], m.na)]
=============================================================================
