SPECIFICATION Spec
CONSTANTS
  Freqs = {1, 2}
  Keeps = {1, 2}
  Asyncs = {TRUE, FALSE}
  ConvAts = {5}
  CallSeqs <- Calls1
  MaxGen = 3
  AllowExplicit = FALSE
  Bug = "label_per_call"
INVARIANT CommittedUntorn
INVARIANT LatestNeverDeleting
INVARIANT RestoreSound
INVARIANT Durable
INVARIANT ResumeEquivalence
INVARIANT CountIsTag
INVARIANT CadenceAndRetention
INVARIANT LastIterationSaved
INVARIANT NothingWrittenWhenDisabled
