SPECIFICATION Spec
