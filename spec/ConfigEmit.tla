----------------------------- MODULE ConfigEmit -----------------------------
(* Emits the boundary grid of ConfigContract so that the harness replays exactly the  *)
(* configurations the specification enumerates (spec -> code).                         *)
EXTENDS Integers, Sequences, FiniteSets, TLC
CC == INSTANCE ConfigContract WITH kind <- "VI", route <- "kwargs", c <- 0, order <- "", phase <- "", outcome <- "", dtype <- ""
ASSUME \A k \in CC!Kinds : \A x \in CC!Grid(k) : PrintT(<<"GRID", k, x, CC!Expected(k, x)>>)
VARIABLE dummy
Init == dummy = 0
Next == UNCHANGED dummy
Spec == Init /\ [][Next]_dummy
=============================================================================
