------------------------------- MODULE PIModel -------------------------------
(***************************************************************************)
(* Exhaustive model of policy iteration as the code does it, from EVERY    *)
(* starting policy of seeded gadgets, in exact rational arithmetic         *)
(* (values V / sc).  One action per critical section:                      *)
(*   EvalStep    one application of the policy backup, measure, test       *)
(*   EvalReturn  PI_EvalReturnsPreUpdateIterate: on convergence the        *)
(*               pre-update iterate is returned, otherwise the last one    *)
(*   Improve     greedy extraction (first maximiser), action VECTORS       *)
(*               compared component-wise (ActVec may contain duplicates)   *)
(*   Test        stop when no vector changed                               *)
(***************************************************************************)
EXTENDS SolverOps, DetValues, Randomization, TLC

CONSTANTS NS, NA, NE, PDs, Gammas, RewSet, EpsSet, Tests, Budgets, Resets, NumGadgets,
          MaxScale, MaxOuter, ActVec,       \* ActVec[a] = action vector of action index a
          Bug    \* "none" | "all_components" (a state counts as changed only if EVERY component changed): anti-vacuity

GammaPI == {<<1, 2>>, <<1, 4>>}
RewPI == {-2, 0, 1, 3}
EpsPI == {<<1, 1>>, <<1, 4>>}
VecDistinct == <<(<<0, 0>>), (<<0, 1>>)>>
VecDup == <<(<<1, 0>>), (<<1, 0>>)>>
VecMixed == <<(<<1, 0>>), (<<0, 1>>), (<<1, 0>>)>>
VecPartial == <<(<<1, 0>>), (<<1, 1>>), (<<0, 1>>)>>      \* actions 1 and 2 differ in one component only

VARIABLES m, eps, test, budget, reset,
          V, sc, pol,                 \* current values V/sc and policy (action indices)
          ev, esc, estep,             \* evaluation in progress: iterate ev/esc, steps done
          prev, psc,                  \* pre-update iterate of the last step
          lastc, lastcs,              \* measure of the last evaluation step
          iter, pc, status, changed
vars == <<m, eps, test, budget, reset, V, sc, pol, ev, esc, estep, prev, psc, lastc, lastcs,
          iter, pc, status, changed>>

S == 1..NS
A == 1..NA
E == 1..NE
Rows(PD) == {r \in [E -> 0..PD] : SumTo(r, NE) = PD}
Canon(a) == CHOOSE b \in A : ActVec[b] = ActVec[a] /\ \A b2 \in A : ActVec[b2] = ActVec[a] => b <= b2
Gadgets ==
  UNION { UNION {
      LET nexts == RandomSubset(NumGadgets, [S -> [A -> [E -> S]]])
          rews  == RandomSubset(NumGadgets, [S -> [A -> [E -> RewSet]]])
          pks   == RandomSubset(NumGadgets, [S -> [A -> Rows(PD)]])
      \* the action VECTOR is the action: indices with equal vectors share one set of tables
      IN { [ns |-> NS, na |-> NA, ne |-> NE,
            next |-> [s \in S |-> [a \in A |-> nx[s][Canon(a)]]],
            rew |-> [s \in S |-> [a \in A |-> rw[s][Canon(a)]]],
            pk |-> [s \in S |-> [a \in A |-> pk[s][Canon(a)]]],
            PD |-> PD, GN |-> g[1], GD |-> g[2]] :
             nx \in nexts, rw \in RandomSubset(2, rews), pk \in RandomSubset(2, pks) }
      : g \in Gammas } : PD \in PDs }

AtScale(mm, d) == [mm EXCEPT !.rew = [s \in S |-> [a \in A |-> [e \in E |-> mm.rew[s][a][e] * d]]]]
Lift(x, dx, d) == [s \in S |-> x[s] * (d \div dx)]
Below(c, d) == c * m.GN * eps[2] < eps[1] * (m.GD - m.GN) * d
ZeroV == [s \in S |-> 0]

Init ==
  /\ m \in Gadgets /\ eps \in EpsSet /\ test \in Tests /\ budget \in Budgets /\ reset \in Resets
  /\ V = ZeroV /\ sc = 1
  /\ pol \in [S -> A]                     \* every starting policy
  /\ ev = ZeroV /\ esc = 1 /\ estep = 0 /\ prev = ZeroV /\ psc = 1 /\ lastc = 0 /\ lastcs = 1
  /\ iter = 0 /\ pc = "top" /\ status = "running" /\ changed = -1

StartEval ==
  /\ pc = "top" /\ status = "running" /\ iter < MaxOuter
  /\ iter' = iter + 1
  /\ ev' = IF reset THEN ZeroV ELSE V
  /\ esc' = IF reset THEN 1 ELSE sc
  /\ estep' = 0 /\ pc' = "eval"
  /\ UNCHANGED <<m, eps, test, budget, reset, V, sc, pol, prev, psc, lastc, lastcs, status, changed>>

EvalStep ==
  /\ pc = "eval" /\ estep < budget /\ esc * Den(m) <= MaxScale
  /\ LET d1 == esc * Den(m)
         W  == PolBackupNum(AtScale(m, esc), pol, ev)
         old == Lift(ev, esc, d1)
         c  == IF test = "span" THEN SpanOf(Diff(W, old, NS), NS) ELSE MaxAbsOf(Diff(W, old, NS), NS)
     IN /\ prev' = ev /\ psc' = esc
        /\ ev' = W /\ esc' = d1
        /\ lastc' = c /\ lastcs' = d1
        /\ estep' = estep + 1
        /\ pc' = IF Below(c, d1) THEN "evalconv" ELSE "eval"
  /\ UNCHANGED <<m, eps, test, budget, reset, V, sc, pol, iter, status, changed>>

EvalReturn ==   \* PI_EvalReturnsPreUpdateIterate
  /\ \/ pc = "evalconv" /\ V' = prev /\ sc' = psc
     \/ pc = "eval" /\ estep = budget /\ V' = ev /\ sc' = esc
  /\ pc' = "improve"
  /\ UNCHANGED <<m, eps, test, budget, reset, pol, ev, esc, estep, prev, psc, lastc, lastcs, iter, status, changed>>

Improve ==
  /\ pc = "improve"
  /\ LET np == [s \in S |-> FirstGreedy(AtScale(m, sc), V, s)]
         Differs(v, w) == IF Bug = "all_components" THEN \A k \in 1..Len(v) : v[k] # w[k] ELSE v # w
     IN /\ changed' = Cardinality({s \in S : Differs(ActVec[np[s]], ActVec[pol[s]])})
        /\ pol' = np
  /\ pc' = "test"
  /\ UNCHANGED <<m, eps, test, budget, reset, V, sc, ev, esc, estep, prev, psc, lastc, lastcs, iter, status>>

Test ==
  /\ pc = "test"
  /\ IF changed = 0 THEN status' = "converged" /\ pc' = "done" ELSE status' = status /\ pc' = "top"
  /\ UNCHANGED <<m, eps, test, budget, reset, V, sc, pol, ev, esc, estep, prev, psc, lastc, lastcs, iter, changed>>

Next == StartEval \/ EvalStep \/ EvalReturn \/ Improve \/ Test
Spec == Init /\ [][Next]_vars

(* ---- invariants (C05) ---------------------------------------------------------*)
EvalWithinBudget == estep <= budget
(* early stop only when no state's action vector changed in any component *)
StopMeansStable  == status = "converged" => changed = 0
(* the returned policy is greedy for the returned values *)
ReturnedGreedy   == status = "converged" => \A s \in S : pol[s] \in GreedySet(AtScale(m, sc), V, s)
(* an evaluation that converged within its budget satisfies the documented test on the returned iterate *)
ReturnedIterateTested ==
  (pc = "improve" /\ estep < budget) => Below(lastc, lastcs)

(* C01 for policy iteration on deterministic gadgets (closed-form values): when the run stops by policy  *)
(* stability and the last evaluation converged within its budget, the returned policy loses at most       *)
(* eps/gamma (span) or 2*eps/gamma (max_diff); under max_diff the returned values are within eps/gamma of *)
(* the returned policy's own value                                                                       *)
PINearOptimal ==
  (NE = 1 /\ status = "converged" /\ estep < budget) =>
     \A s \in S :
        LET loss == RSub(DetOptimalValue(m, s), DetPolicyValue(m, pol, s))
        IN /\ RLe(<<0, 1>>, loss)
           /\ RLe(loss, <<(IF test = "span" THEN 1 ELSE 2) * eps[1] * m.GD, eps[2] * m.GN>>)
PIValuesNearPolicyValue ==
  (NE = 1 /\ status = "converged" /\ estep < budget /\ test = "max_diff") =>
     \A s \in S : RLe(RAbs(RSub(RNorm(<<V[s], sc>>), DetPolicyValue(m, pol, s))), <<eps[1] * m.GD, eps[2] * m.GN>>)
=============================================================================
