SPECIFICATION Spec
CONSTANTS
  Bug = "none"
  Params <- ThoroughGrid
INVARIANT Closed
INVARIANT IndexConsistent
INVARIANT Conservation
INVARIANT ComponentsNonNegative
INVARIANT WeekdayCyclic
INVARIANT PipelineShift
INVARIANT ArrivalAfterLeadTime
