SPECIFICATION Spec
