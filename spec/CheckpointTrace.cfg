SPECIFICATION Spec
