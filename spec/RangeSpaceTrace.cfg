SPECIFICATION Spec
