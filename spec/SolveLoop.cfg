SPECIFICATION Spec
CONSTANTS
  N = 6
  MaxK = 4
  MaxCalls = 3
  Bug = "none"
INVARIANT InvA
INVARIANT InvB
INVARIANT Composable
