SPECIFICATION Spec
CONSTANTS
  N = 6
  MaxK = 4
  MaxCalls = 3
INVARIANT InvA
INVARIANT InvB
INVARIANT Composable
