SPECIFICATION Spec
CONSTANTS
  N = 8
  MaxK = 5
  MaxCalls = 3
INVARIANT InvA
INVARIANT InvB
INVARIANT Composable
