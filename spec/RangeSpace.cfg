SPECIFICATION Spec
CONSTANTS
  MaxDim = 2
  Lo <- NegTwo
  Hi = 3
INVARIANT InvSpace
INVARIANT InvNoDup
INVARIANT InvAllIn
INVARIANT InvIndex
INVARIANT InvInverse
INVARIANT InvSampledAgrees
