------------------------------ MODULE SolveLoop ------------------------------
(***************************************************************************)
(* The solve() loop skeleton shared by the five solvers (C08), with the    *)
(* convergence measure abstracted to an arbitrary set Below of iteration   *)
(* numbers at which the measure is below the threshold: TLC thereby        *)
(* quantifies over ALL measure sequences.  Two copies run side by side:    *)
(* copy "a" executes a sequence of calls, copy "b" the single merged call. *)
(*                                                                         *)
(* One action per critical section of the code:                            *)
(*   Call(k)      solve(k) entered                                         *)
(*   Sweep        iteration += 1; backup; values assigned                  *)
(*   Test         measure compared with the threshold; break or continue   *)
(*   Return       (final save;) policy extracted from current values;      *)
(*                solver state returned                                    *)
(* vtag = number of backups applied to the problem's initial values,       *)
(* ptag = vtag at the moment the policy was extracted.                     *)
(***************************************************************************)
EXTENDS Integers, Sequences, FiniteSets

CONSTANTS N,          \* iterations considered
          MaxK,       \* limits are in 1..MaxK
          MaxCalls,   \* copy a makes 1..MaxCalls calls
          Bug         \* "none" | "no_break" (the loop tests the measure but does not stop): anti-vacuity

VARIABLES Below, a, b
vars == <<Below, a, b>>

RECURSIVE SumSeq(_)
SumSeq(s) == IF s = <<>> THEN 0 ELSE Head(s) + SumSeq(Tail(s))

Fresh(calls) ==
  [calls |-> calls, ci |-> 0, pc |-> "idle", rem |-> 0, iter |-> 0, vtag |-> 0, ptag |-> -1,
   conv |-> FALSE,            \* the current/last call reported convergence
   below |-> FALSE,           \* measure of the last sweep below threshold
   sweeps |-> 0,              \* sweeps in the current call
   limitOnly |-> TRUE,        \* every earlier call stopped at its limit, not by convergence
   everBad |-> FALSE]         \* a layer-P rule was broken (never set by this model)

CanCall(r)   == r.pc = "idle" /\ r.ci < Len(r.calls)
Call(r)      == [r EXCEPT !.ci = r.ci + 1, !.pc = "top", !.rem = r.calls[r.ci + 1],
                          !.conv = FALSE, !.sweeps = 0,
                          !.limitOnly = r.limitOnly /\ (r.ci = 0 \/ ~r.conv)]
CanSweep(r)  == r.pc = "top" /\ r.rem > 0
DoSweep(r)   == [r EXCEPT !.iter = r.iter + 1, !.vtag = r.vtag + 1, !.rem = r.rem - 1,
                          !.sweeps = r.sweeps + 1,
                          !.below = (r.iter + 1) \in Below, !.pc = "swept"]
CanTest(r)   == r.pc = "swept"
DoTest(r)    == IF r.below /\ Bug # "no_break" THEN [r EXCEPT !.conv = TRUE, !.pc = "after"]
                ELSE [r EXCEPT !.pc = "top"]
CanExit(r)   == r.pc = "top" /\ r.rem = 0
DoExit(r)    == [r EXCEPT !.pc = "after"]
CanReturn(r) == r.pc = "after"
DoReturn(r)  == [r EXCEPT !.ptag = r.vtag, !.pc = "idle"]

Step(r) == IF CanCall(r) THEN {Call(r)}
           ELSE IF CanSweep(r) THEN {DoSweep(r)}
           ELSE IF CanTest(r) THEN {DoTest(r)}
           ELSE IF CanExit(r) THEN {DoExit(r)}
           ELSE IF CanReturn(r) THEN {DoReturn(r)}
           ELSE {}

CallSeqs == UNION {[1..n -> 1..MaxK] : n \in 1..MaxCalls}

Init == /\ Below \in SUBSET (1..N)
        /\ \E cs \in CallSeqs : /\ SumSeq(cs) <= N
                                /\ a = Fresh(cs)
                                /\ b = Fresh(<<SumSeq(cs)>>)

Next == \/ \E r \in Step(a) : a' = r /\ UNCHANGED <<Below, b>>
        \/ Step(a) = {} /\ \E r \in Step(b) : b' = r /\ UNCHANGED <<Below, a>>

Spec == Init /\ [][Next]_vars

Done(r) == r.pc = "idle" /\ r.ci = Len(r.calls)

(* ---- C08 as invariants ---------------------------------------------------- *)
AtMostK(r)       == r.ci > 0 => r.sweeps <= r.calls[r.ci]
CountIsBackups(r) == r.iter = r.vtag
(* convergence is reported exactly when the last sweep's measure was below the threshold *)
ConvSound(r)     == r.conv => r.iter \in Below
(* inside a call no sweep follows a below-threshold sweep: the sweeps of the current call        *)
(* before the last one were all at or above the threshold                                        *)
StopsAtFirst(r)  == \A n \in (r.iter - r.sweeps + 1)..(r.iter - 1) : n \notin Below
(* a call returns only at its limit or by convergence *)
NoEarlyReturn(r) == (r.pc = "after" /\ ~r.conv) => r.rem = 0
PolicyFresh(r)   == (r.pc = "idle" /\ r.ci > 0) => r.ptag = r.vtag

InvA == AtMostK(a) /\ CountIsBackups(a) /\ ConvSound(a) /\ StopsAtFirst(a) /\ NoEarlyReturn(a) /\ PolicyFresh(a)
InvB == AtMostK(b) /\ CountIsBackups(b) /\ ConvSound(b) /\ StopsAtFirst(b) /\ NoEarlyReturn(b) /\ PolicyFresh(b)

(* solve(k1); solve(k2); ... == solve(k1+k2+...) provided the earlier calls stopped at their limit *)
Composable ==
  (Done(a) /\ Done(b) /\ a.limitOnly) =>
     /\ a.iter = b.iter /\ a.vtag = b.vtag /\ a.ptag = b.ptag /\ a.conv = b.conv
=============================================================================
