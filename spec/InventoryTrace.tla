--------------------------- MODULE InventoryTrace ---------------------------
(***************************************************************************)
(* Judges complete tables recorded from the real shipped problems          *)
(* (state/action/event spaces, state_to_index of every state and of every  *)
(* successor, transition() on EVERY (state, action, event) triple, sign of *)
(* the event probability) against InventoryOps.  One behaviour per         *)
(* parameterisation:  spaces -> transitions -> accepted.                   *)
(*   C14: spaces as documented (sizes, row-major order, no duplicates),    *)
(*        index(state) = own row, and for every triple with positive       *)
(*        probability the successor is a listed state whose index points   *)
(*        back to exactly that vector;                                     *)
(*   C15: on every triple for which the documented model defines an        *)
(*        outcome, successor and reward equal the documented ones          *)
(*        (reward = sum of coefficient x integer component, exact).        *)
(***************************************************************************)
EXTENDS InventoryOps, TLC, Json, IOUtils

Obs == JsonDeserialize(IOEnv.TRACE_FILE)

VARIABLES tid, step, verdict
vars == <<tid, step, verdict>>

O == Obs[tid]
P == O.P

Init == tid \in 1..Len(Obs) /\ step = "spaces" /\ verdict = "running"

Reject(prop, clause, detail) ==
  /\ verdict' = "rejected"
  /\ PrintT(<<"REJECT", tid, prop, clause, detail>>)
  /\ UNCHANGED <<tid, step>>

(* O.sampled: the state space is too large to list; O.states are the rows O.srows (1-based) of a space of      *)
(* O.nstates rows, and O.nrow[k] is the row of the real space that the successor's index points at.            *)
NS == O.nstates
NL == Len(O.states)
RowOf(i) == IF O.sampled THEN O.srows[i] ELSE i
NA == Len(O.actions)
NE == Len(O.events)
Triple(k) ==          \* k in 1..NS*NA*NE, event index fastest
  [si |-> ((k - 1) \div (NA * NE)) + 1, ai |-> (((k - 1) \div NE) % NA) + 1, ei |-> ((k - 1) % NE) + 1]

NoDup(seq) == \A i \in 1..Len(seq) : \A j \in 1..Len(seq) : seq[i] = seq[j] => i = j

EventsOK ==
  CASE P.kind = "forest"    -> O.events = <<(<<0>>), (<<1>>)>>
    [] P.kind = "demoor"    -> O.events = [d \in 1..(P.D + 1) |-> <<d - 1>>]
    [] P.kind = "hendrix"   -> O.events = Enumerate(<<0, 0>>, <<P.Qa * P.m, P.Qb * P.m>>)
    [] P.kind = "mirjalili" ->
         /\ NoDup(O.events)
         /\ \A k \in 1..NE :
              /\ Len(O.events[k]) = P.m + 1
              /\ O.events[k][1] \in 0..P.D
              /\ \A j \in 2..(P.m + 1) : O.events[k][j] \in 0..P.Q
              /\ SumSeq(SubSeqSafe(O.events[k], 2, P.m + 1)) <= P.Q
         /\ NE = (P.D + 1) * Cardinality({v \in [1..P.m -> 0..P.Q] : SumSeq(v) <= P.Q})

CheckSpaces ==
  /\ step = "spaces" /\ verdict = "running"
  /\ IF O.sampled /\ ~SampledSpaceOK(StateMins(P), StateMaxs(P), O.nstates, O.srows, O.states)
       THEN Reject("C14", "state space (sampled rows of a large space): size or a sampled row differs from the documented box in row-major order", NS)
     ELSE IF ~O.sampled /\ ~(SpaceOK(StateMins(P), StateMaxs(P), O.states) /\ NS = NL)
       THEN Reject("C14", "state space is not the documented box in row-major order (size, duplicates or order)", NS)
     ELSE IF ~SpaceOK(ActionMins(P), ActionMaxs(P), O.actions)
       THEN Reject("C14", "action space is not the documented one", NA)
     ELSE IF ~EventsOK THEN Reject("C14", "event space is not the documented one (size, range or duplicates)", NE)
     ELSE IF \E i \in 1..NL : O.sidx[i] # RowOf(i) - 1
       THEN Reject("C14", "index function does not map a listed state to its own row",
                   LET i == CHOOSE i \in 1..NL : O.sidx[i] # RowOf(i) - 1 IN <<O.states[i], O.sidx[i]>>)
     ELSE step' = "transitions" /\ UNCHANGED <<tid, verdict>>

RewardOf(comp) == SumSeq([k \in 1..Len(comp) |-> O.coef[k] * comp[k]])

BadClosure(k) ==
  /\ O.ppos[k]
  /\ ~(/\ InStateSpace(P, O.next[k])
       /\ O.nidx[k] >= 0 /\ O.nidx[k] < NS
       /\ IF O.sampled
            THEN O.nrow[k] = O.next[k] /\ RowVector(StateMins(P), StateMaxs(P), O.nidx[k] + 1) = O.next[k]
            ELSE O.states[O.nidx[k] + 1] = O.next[k])

BadDynamics(k) ==
  LET t == Triple(k)
      s == O.states[t.si]
      a == O.actions[t.ai]
      e == O.events[t.ei]
  IN /\ Defined(P, s, a, e)
     /\ LET r == Step(P, s, a, e)
        IN ~(O.next[k] = r.next /\ O.rewok[k] /\ O.rew[k] = RewardOf(r.comp))

Describe(k) == LET t == Triple(k) IN <<O.states[t.si], O.actions[t.ai], O.events[t.ei], O.next[k], O.rew[k]>>

CheckTransitions ==
  /\ step = "transitions" /\ verdict = "running"
  /\ LET n == NL * NA * NE
         badc == IF Len(O.next) = n THEN {k \in 1..n : BadClosure(k)} ELSE {}
         badd == IF Len(O.next) = n THEN {k \in 1..n : BadDynamics(k)} ELSE {}
     IN IF Len(O.next) # n THEN Reject("C15", "table size", Len(O.next))
        ELSE IF badc # {} \/ badd # {}
          THEN /\ verdict' = "rejected"
               /\ UNCHANGED <<tid, step>>
               \* the two properties are judged independently: one line per violated property
               /\ (badc # {}) => PrintT(<<"REJECT", tid, "C14",
                      "a positive-probability transition leaves the state space / is clipped onto another state",
                      Describe(CHOOSE k \in badc : \A q \in badc : k <= q)>>)
               /\ (badd # {}) => PrintT(<<"REJECT", tid, "C15",
                      "successor or reward differs from the documented dynamics",
                      Describe(CHOOSE k \in badd : \A q \in badd : k <= q)>>)
        ELSE /\ verdict' = "accepted"
             /\ PrintT(<<"ACCEPT", tid>>)
             /\ UNCHANGED <<tid, step>>

Next == CheckSpaces \/ CheckTransitions
Spec == Init /\ [][Next]_vars
=============================================================================
