SPECIFICATION Spec
CONSTANTS
  Bug = "demand_from_closing"
  Params <- QuickGrid
INVARIANT Closed
INVARIANT IndexConsistent
INVARIANT Conservation
INVARIANT ComponentsNonNegative
INVARIANT WeekdayCyclic
INVARIANT PipelineShift
INVARIANT ArrivalAfterLeadTime
