--------------------------- MODULE CheckpointDirs ---------------------------
(***************************************************************************)
(* Several checkpoint directories (C10, C12): which directory a solver     *)
(* saves to, which directory restore() reads, what a backup copy holds.    *)
(* Module Checkpoint models ONE directory with its writer thread, crashes  *)
(* and garbage collection in detail; this module abstracts a directory to  *)
(* the set of its committed steps and adds what Checkpoint cannot say:     *)
(*   - every solver construction on a directory (re)writes the config file *)
(*     there, naming the directory the solver saves to;                    *)
(*   - checkpoint_dir=None makes up a directory of the solver's own;       *)
(*   - the checkpoint manager refuses a step that is not newer than the    *)
(*     newest one in the directory (Orbax_RefusesOlderSteps);              *)
(*   - restore(src) reads the steps of src - whatever the config file in   *)
(*     src says about directories - and later saves go to the directory    *)
(*     named in that config file unless a new one is given;                *)
(*   - a directory can be copied (backup) while the original moves on.     *)
(* Content of a step is <<run, iteration>>: the run that computed it and   *)
(* the iteration it carries.                                               *)
(*                                                                         *)
(* Bug = "none" | "restore_reads_config_dir" | "default_dir_adopts_previous"*)
(***************************************************************************)
EXTENDS Integers, FiniteSets, TLC

CONSTANTS NDirs, MaxIter, Keep, MaxRuns, Bug

Dirs == 1..NDirs
NoSolver == [run |-> 0, iter |-> 0, dir |-> 0, saved |-> "na", older |-> FALSE, madeup |-> FALSE]
NoRestore == [src |-> 0, got |-> <<0, 0>>, want |-> <<0, 0>>]

VARIABLES disk,      \* [Dirs -> SUBSET [step, run, iter]] committed checkpoints
          cfgdir,    \* [Dirs -> 0..NDirs] directory named by the config file stored in the directory (0: none)
          used,      \* directories that have ever been given to / made up for a solver
          live,      \* the live solver
          nextrun,
          prevcfg,   \* the directory field of the configuration OBJECT of the previous construction (0: None)
          last       \* the last restore: where from, what it got, what the source held
vars == <<disk, cfgdir, used, live, nextrun, prevcfg, last>>

Steps(d) == {e.step : e \in disk[d]}
SetMax(S) == CHOOSE x \in S : \A y \in S : y <= x
Largest(k, S) == {x \in S : Cardinality({y \in S : y > x}) < k}
EntryAt(d, st) == CHOOSE e \in disk[d] : e.step = st

Init ==
  /\ disk = [d \in Dirs |-> {}] /\ cfgdir = [d \in Dirs |-> 0] /\ used = {}
  /\ live = NoSolver /\ nextrun = 1 /\ prevcfg = 0 /\ last = NoRestore

(* a solver constructed with an explicit directory (which may already hold another run's checkpoints) *)
NewExplicit(d) ==
  /\ nextrun <= MaxRuns
  /\ live' = [run |-> nextrun, iter |-> 0, dir |-> d, saved |-> "na", older |-> disk[d] # {}, madeup |-> FALSE]
  /\ cfgdir' = [cfgdir EXCEPT ![d] = d]
  /\ used' = used \cup {d}
  /\ nextrun' = nextrun + 1 /\ prevcfg' = d
  /\ UNCHANGED <<disk, last>>

(* checkpoint_dir=None: the solver makes up a directory nobody has used (time-stamped name).  The configuration    *)
(* object keeps saying None, so reusing the object for the next solver makes up another one.                       *)
NewDefault(reuseObject) ==
  /\ nextrun <= MaxRuns
  /\ \E fresh \in Dirs \ used :
       LET d == IF Bug = "default_dir_adopts_previous" /\ reuseObject /\ prevcfg # 0 THEN prevcfg ELSE fresh IN
       /\ live' = [run |-> nextrun, iter |-> 0, dir |-> d, saved |-> "na", older |-> disk[d] # {}, madeup |-> TRUE]
       /\ cfgdir' = [cfgdir EXCEPT ![d] = d]
       /\ used' = used \cup {d}
       \* the faulty variant writes the made-up directory back into the configuration object
       /\ prevcfg' = IF Bug = "default_dir_adopts_previous" THEN d ELSE 0
  /\ nextrun' = nextrun + 1
  /\ UNCHANGED <<disk, last>>

Sweep ==
  /\ live.run # 0 /\ live.iter < MaxIter
  /\ live' = [live EXCEPT !.iter = @ + 1, !.saved = "pending"]
  /\ UNCHANGED <<disk, cfgdir, used, nextrun, prevcfg, last>>

(* the final save of a solve() call, after pending writes have finished *)
Save ==
  /\ live.run # 0 /\ live.iter > 0 /\ live.saved = "pending"
  /\ LET d == live.dir
         accepted == disk[d] = {} \/ live.iter > SetMax(Steps(d))          \* Orbax_RefusesOlderSteps
         all == disk[d] \cup {[step |-> live.iter, run |-> live.run, iter |-> live.iter]}
     IN disk' = IF accepted THEN [disk EXCEPT ![d] = {e \in all : e.step \in Largest(Keep, {x.step : x \in all})}]
                ELSE disk
  /\ live' = [live EXCEPT !.saved = "done"]
  /\ UNCHANGED <<cfgdir, used, nextrun, prevcfg, last>>

(* a backup: the whole directory, config file included, copied to an unused place *)
CopyDir(a, b) ==
  /\ a # b /\ disk[a] # {} /\ b \notin used
  /\ disk' = [disk EXCEPT ![b] = disk[a]]
  /\ cfgdir' = [cfgdir EXCEPT ![b] = cfgdir[a]]
  /\ used' = used \cup {b}
  /\ UNCHANGED <<live, nextrun, prevcfg, last>>

(* restore(src, step, new_checkpoint_dir): st = 0 latest, nd = 0 none given *)
Restore(src, st, nd) ==
  /\ disk[src] # {} /\ cfgdir[src] # 0
  /\ st = 0 \/ st \in Steps(src)
  /\ nd = 0 \/ nd \notin used
  /\ LET recorded == cfgdir[src]
         from == IF Bug = "restore_reads_config_dir" /\ nd = 0 /\ disk[recorded] # {} THEN recorded ELSE src
         wantstep == IF st = 0 THEN SetMax(Steps(src)) ELSE st
         gotstep == IF st = 0 THEN SetMax(Steps(from)) ELSE st
         target == IF nd # 0 THEN nd ELSE recorded
     IN IF gotstep \notin Steps(from)
        THEN \* the call raises: no solver
             /\ live' = NoSolver
             /\ last' = [src |-> src, got |-> <<0, 0>>, want |-> <<EntryAt(src, wantstep).run, EntryAt(src, wantstep).iter>>]
             /\ UNCHANGED <<cfgdir, used>>
        ELSE /\ live' = [run |-> EntryAt(from, gotstep).run, iter |-> EntryAt(from, gotstep).iter, dir |-> target,
                         saved |-> "na", madeup |-> FALSE,
                         older |-> disk[target] # {} /\ EntryAt(from, gotstep).iter < SetMax(Steps(target))]
             /\ last' = [src |-> src, got |-> <<EntryAt(from, gotstep).run, EntryAt(from, gotstep).iter>>,
                         want |-> <<EntryAt(src, wantstep).run, EntryAt(src, wantstep).iter>>]
             /\ cfgdir' = [cfgdir EXCEPT ![target] = target]
             /\ used' = used \cup {target}
  /\ prevcfg' = prevcfg
  /\ UNCHANGED <<disk, nextrun>>

Next ==
  \/ \E d \in Dirs : NewExplicit(d)
  \/ \E r \in BOOLEAN : NewDefault(r)
  \/ Sweep \/ Save
  \/ \E a, b \in Dirs : CopyDir(a, b)
  \/ \E src \in Dirs : \E st \in 0..MaxIter : \E nd \in {0} \cup Dirs : Restore(src, st, nd)
Spec == Init /\ [][Next]_vars

(* ---- properties ----------------------------------------------------------------------------------------------- *)
(* C10: restore(directory) returns what THAT directory holds at the chosen step *)
RestoreReadsSource == last.src # 0 => last.got = last.want
(* C11/C12: the label of a step is the iteration it carries *)
LabelIsIteration == \A d \in Dirs : \A e \in disk[d] : e.step = e.iter
(* C12: retention *)
AtMostKeep == \A d \in Dirs : Cardinality(disk[d]) <= Keep
(* C12: after the final save the solver's last iteration is in ITS directory - unless the directory already held a *)
(* newer step when the solver was attached to it (the listed finding: older step restored / adopted directory)     *)
LastIterationSaved == (live.run # 0 /\ live.saved = "done") => (live.iter \in Steps(live.dir) \/ live.older)
(* a solver that made up its own directory never finds another run's checkpoints there *)
DefaultDirIsOwn == live.madeup => ~live.older
(* action property: restore with a new directory never changes the source directory *)
SourceUntouched == [][\A d \in Dirs : disk'[d] # disk[d] => (d = live.dir \/ disk[d] = {})]_vars
=============================================================================
