------------------------------- MODULE Matrices -------------------------------
(***************************************************************************)
(* Design-level check for C17 on seeded gadgets (several events into one   *)
(* successor, single-event problems, deficient rows): the matrices define  *)
(* the same Bellman operator as the functional description for EVERY value *)
(* vector of a grid, rows of a well-formed problem sum to one, and the     *)
(* build outcome (error / ok) is determined by the tolerance rule.         *)
(***************************************************************************)
EXTENDS MatricesOps, Randomization, TLC

CONSTANTS NS, NA, NE, PDs, Gammas, RewSet, Grid, NumGadgets, Tols,
          Bug    \* "none" | "max_before_abs" (only the largest row sum is compared with one): anti-vacuity

GammaM == {<<1, 2>>, <<3, 4>>, <<1, 1>>}
RewM == {-2, 0, 1, 3}
GridM == {-3, 0, 4}
TolsM == {<<0, 1>>, <<1, 8>>, <<1, 2>>}

VARIABLES m, V, tol, phase, outcome
vars == <<m, V, tol, phase, outcome>>

S == 1..NS
A == 1..NA
E == 1..NE
AnyRows(PD) == [E -> 0..PD]          \* rows that need not sum to PD (deficient / excessive)

Gadgets ==
  UNION { UNION {
      LET nexts == RandomSubset(NumGadgets, [S -> [A -> [E -> S]]])
          rews  == RandomSubset(NumGadgets, [S -> [A -> [E -> RewSet]]])
          pks   == RandomSubset(NumGadgets, [S -> [A -> AnyRows(PD)]])
                     \cup RandomSubset(NumGadgets, [S -> [A -> {r \in AnyRows(PD) : SumTo(r, NE) = PD}]])
      IN { [ns |-> NS, na |-> NA, ne |-> NE, next |-> nx, rew |-> rw, pk |-> pk,
            PD |-> PD, GN |-> g[1], GD |-> g[2]] :
             nx \in RandomSubset(3, nexts), rw \in RandomSubset(2, rews), pk \in pks }
      : g \in Gammas } : PD \in PDs }

Init == /\ m \in Gadgets /\ V \in [S -> Grid] /\ tol \in Tols
        /\ phase = "given" /\ outcome = "none"

Build == /\ phase = "given"
         /\ outcome' = IF Bug = "max_before_abs"
                        THEN (LET mx == MaxTo([k \in 1..(NS * NA) |-> RowSum(m, ((k - 1) \div NA) + 1, ((k - 1) % NA) + 1)], NS * NA)
                              IN IF Abs(mx - m.PD) * tol[2] > tol[1] * m.PD THEN "error" ELSE "ok")
                        ELSE IF SomeDeviates(m, tol[1], tol[2]) THEN "error" ELSE "ok"
         /\ phase' = "built"
         /\ UNCHANGED <<m, V, tol>>

Next == Build
Spec == Init /\ [][Next]_vars

(* entries of a row add up to the row sum: nothing is lost or duplicated by the accumulation *)
AccumulationExact ==
  \A a \in A : \A s \in S : SumTo([t \in S |-> PNum(m)[a][s][t]], NS) = RowSum(m, s, a)
(* for a well-formed problem the two descriptions define the same operator *)
SameOperator == AllExact(m) => MatrixBackupNum(m, V) = BackupNum(m, V)
RowsSumToOne == (phase = "built" /\ outcome = "ok" /\ tol[1] = 0) => AllExact(m)
ErrorIffDeviation == phase = "built" => (outcome = "error" <=> SomeDeviates(m, tol[1], tol[2]))
(* the two-scale judgement used for tolerances within 1e-12 of a deviation reduces to the plain one *)
FineReduces == \A s \in S : \A a \in A :
                 DeviatesF(m, NoFine(m), s, a, tol[1], tol[2], 0) = Deviates(m, s, a, tol[1], tol[2])
=============================================================================
