------------------------------ MODULE Inventory ------------------------------
(***************************************************************************)
(* The four shipped problems as transition systems: from EVERY state of    *)
(* the documented state space, every action and every event in the         *)
(* structural support of the event distribution is taken.  Invariants:     *)
(* closure (the successor is a listed state - no clipping ever needed),    *)
(* unit conservation, non-negative components, cyclic weekday, pipeline    *)
(* shift.  Parameter grid chosen in Init.                                  *)
(***************************************************************************)
EXTENDS InventoryOps, TLC

CONSTANTS Params,         \* set of parameter records
          Bug             \* "none" | "demand_from_closing" (demand is also served from the order that arrives): anti-vacuity
VARIABLES P, s, last, prev
vars == <<P, s, last, prev>>

Vectors(mins, maxs) == {RowVector(mins, maxs, r) : r \in 1..Size(mins, maxs)}
StateSpace(Q) == Vectors(StateMins(Q), StateMaxs(Q))
ActionSpace(Q) == Vectors(ActionMins(Q), ActionMaxs(Q))
EventSpace(Q) ==
  CASE Q.kind = "forest"    -> {<<0>>, <<1>>}
    [] Q.kind = "demoor"    -> {<<d>> : d \in 0..Q.D}
    [] Q.kind = "hendrix"   -> Vectors(<<0, 0>>, <<Q.Qa * Q.m, Q.Qb * Q.m>>)
    [] Q.kind = "mirjalili" -> {v \in Vectors(Const(Q.m + 1, 0), <<Q.D>> \o Const(Q.m, Q.Q)) :
                                   SumSeq(SubSeqSafe(v, 2, Q.m + 1)) <= Q.Q}

NoStep == [next |-> <<>>, comp |-> <<>>, issued |-> 0, expired |-> 0, received |-> 0, opening |-> 0, closing |-> 0]

ForestGrid == {[kind |-> "forest", S |-> n] : n \in 1..8}
DeMoorGrid == {[kind |-> "demoor", m |-> m, L |-> L, Q |-> Q, D |-> D, fifo |-> f] :
                 m \in 1..3, L \in 1..3, Q \in 1..2, D \in 1..3, f \in BOOLEAN}
DeMoorGridBig == {[kind |-> "demoor", m |-> m, L |-> L, Q |-> Q, D |-> D, fifo |-> f] :
                 m \in 1..4, L \in 1..4, Q \in 1..2, D \in {1, 4}, f \in BOOLEAN}
HendrixGrid == {[kind |-> "hendrix", m |-> m, Qa |-> qa, Qb |-> qb] : m \in 1..2, qa \in 1..2, qb \in 1..2}
HendrixGridBig == {[kind |-> "hendrix", m |-> m, Qa |-> qa, Qb |-> qb] : m \in 1..3, qa \in 1..2, qb \in 1..2}
MirjaliliGrid == {[kind |-> "mirjalili", m |-> m, Q |-> Q, D |-> D] : m \in 1..3, Q \in 1..2, D \in 1..3}
MirjaliliGridBig == {[kind |-> "mirjalili", m |-> m, Q |-> Q, D |-> D] : m \in 1..3, Q \in 1..3, D \in 1..4}
                      \cup {[kind |-> "mirjalili", m |-> 4, Q |-> 2, D |-> 2]}
QuickGrid == ForestGrid \cup DeMoorGrid \cup HendrixGrid \cup MirjaliliGrid
ThoroughGrid == ForestGrid \cup DeMoorGridBig \cup HendrixGridBig \cup MirjaliliGridBig

Init == /\ P \in Params
        /\ s \in StateSpace(P)
        /\ last = NoStep /\ prev = <<>>

Move == \E a \in ActionSpace(P), e \in EventSpace(P) :
          /\ Support(P, s, a, e)
          /\ LET r0 == Step(P, s, a, e)
                 r == IF Bug = "demand_from_closing" /\ P.kind = "demoor"
                      THEN [r0 EXCEPT !.issued = r0.issued + Min2(r0.received, r0.comp[2])] ELSE r0
             IN
               /\ s' = r.next /\ last' = r /\ prev' = s
          /\ UNCHANGED P

Next == Move
Spec == Init /\ [][Next]_vars

(* ---- invariants ---------------------------------------------------------------*)
Closed == InStateSpace(P, s)                                      \* C14: no successor is ever out of range
IndexConsistent == RowVector(StateMins(P), StateMaxs(P), Index(StateMins(P), StateMaxs(P), s) + 1) = s
Conservation == last # NoStep => Conserved(last)                  \* C15
ComponentsNonNegative == last # NoStep => \A k \in 1..Len(last.comp) : last.comp[k] >= 0
WeekdayCyclic == (P.kind = "mirjalili" /\ prev # <<>>) => s[1] = (prev[1] + 1) % 7
PipelineShift ==                                                  \* orders move one place per period
  (P.kind = "demoor" /\ prev # <<>> /\ P.L >= 3) =>
     \A k \in 2..(P.L - 1) : s[k] = prev[k - 1]
ArrivalAfterLeadTime ==                                           \* the unit that arrives was the oldest order
  (P.kind = "demoor" /\ prev # <<>> /\ P.L >= 2) => s[P.L] = prev[P.L - 1]
SizesAsDocumented ==
  /\ Cardinality(StateSpace(P)) = NStates(P)
  /\ Cardinality(ActionSpace(P)) = NActions(P)
=============================================================================
