SPECIFICATION Spec
