SPECIFICATION Spec
CONSTANTS
  Params <- QuickGrid
INVARIANT Closed
INVARIANT IndexConsistent
INVARIANT Conservation
INVARIANT ComponentsNonNegative
INVARIANT WeekdayCyclic
INVARIANT PipelineShift
INVARIANT ArrivalAfterLeadTime
