------------------------------ MODULE DetValues ------------------------------
(***************************************************************************)
(* Exact values of stationary policies of DETERMINISTIC MDPs (PD = 1, one  *)
(* event) in closed form, as rationals <<num, den>> with den > 0: a policy *)
(* drives every state along a path into a cycle, so                        *)
(*   V(s) = sum_{j<n} gamma^j r(s_j) + gamma^n * (cycle sum)/(1-gamma^L).  *)
(* Used by Solvers and PIModel to evaluate the documented error bounds of  *)
(* C01 without any certificate.                                            *)
(***************************************************************************)
EXTENDS TabularMDP

RECURSIVE GCD(_, _)
GCD(a, b) == IF b = 0 THEN a ELSE GCD(b, a % b)
RNorm(x) == LET g == GCD(Abs(x[1]), x[2]) IN IF g = 0 THEN <<0, 1>> ELSE <<x[1] \div g, x[2] \div g>>
RAdd(x, y) == RNorm(<<x[1] * y[2] + y[1] * x[2], x[2] * y[2]>>)
RMul(x, y) == RNorm(<<x[1] * y[1], x[2] * y[2]>>)
RLe(x, y)  == x[1] * y[2] <= y[1] * x[2]
RLt(x, y)  == x[1] * y[2] < y[1] * x[2]
RSub(x, y) == RNorm(<<x[1] * y[2] - y[1] * x[2], x[2] * y[2]>>)
RAbs(x)    == <<Abs(x[1]), x[2]>>

RECURSIVE GamPow(_, _)
GamPow(m, k)  == IF k = 0 THEN <<1, 1>> ELSE RMul(<<m.GN, m.GD>>, GamPow(m, k - 1))

RECURSIVE PathState(_, _, _, _)
PathState(m, p, s, k) == IF k = 0 THEN s ELSE PathState(m, p, m.next[s][p[s]][1], k - 1)

RECURSIVE DiscSum(_, _, _, _)     \* sum_{j<k} gamma^j r(path(s, j))
DiscSum(m, p, s, k) ==
  IF k = 0 THEN <<0, 1>>
  ELSE RAdd(DiscSum(m, p, s, k - 1),
            RMul(GamPow(m, k - 1), <<m.rew[PathState(m, p, s, k - 1)][p[PathState(m, p, s, k - 1)]][1], 1>>))

DetPolicyValue(m, p, s) ==
  LET n == m.ns
      c == PathState(m, p, s, n)                                  \* on the cycle
      L == CHOOSE l \in 1..n : PathState(m, p, c, l) = c /\ \A l2 \in 1..(l - 1) : PathState(m, p, c, l2) # c
      gl == GamPow(m, L)
      vc == RMul(DiscSum(m, p, c, L), <<gl[2], gl[2] - gl[1]>>)   \* cycle sum / (1 - gamma^L)
  IN RAdd(DiscSum(m, p, s, n), RMul(GamPow(m, n), vc))

DetPolicies(m) == [States(m) -> Actions(m)]
RMaxOver(f, D) == CHOOSE x \in {f[d] : d \in D} : \A y \in {f[d] : d \in D} : RLe(y, x)
DetOptimalValue(m, s) == RMaxOver([p \in DetPolicies(m) |-> DetPolicyValue(m, p, s)], DetPolicies(m))
=============================================================================
