SPECIFICATION Spec
CONSTANTS
  Kind = "RVI"
  NS = 3
  NA = 2
  NE = 2
  PDs = {2}
  Gammas <- GammaOne
  RewSet <- Rew5
  V0Set <- V0a
  EpsSet <- EpsA
  Tests = {"span"}
  Periods = {1}
  NumGadgets = 16
  MaxScale = 1048576
  Bug = "rvi_gain_zero"
  MaxIter = 18
INVARIANT WellFormedInv
INVARIANT RVIResidualWithinEps
INVARIANT RVIBounded
INVARIANT ConvergedMeansBelow
