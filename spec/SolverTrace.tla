----------------------------- MODULE SolverTrace -----------------------------
(***************************************************************************)
(* Trace validation for the value-iteration family (VI, SAVI, RVI, PVI).   *)
(*                                                                         *)
(* A trace is what the hooks recorded from one real solver object:         *)
(*   begin(k)  solve(max_iterations = k) entered                           *)
(*   sweep     values assigned after one sweep (values, measure, ...)      *)
(*   conv      the loop reported convergence and broke                     *)
(*   end       solve() returned (values, policy)                           *)
(* projected to integers at one common scale.  The specification steps     *)
(* through the events with the solve-loop state machine of C08 (budget,    *)
(* stopped, pending stop) and evaluates, at every event, the layer-P       *)
(* predicates of C01, C02, C04, C06, C07, C08 with SolverOps as oracle.    *)
(* Layer-I facts (how RVI keeps its gain, which maximiser is returned)     *)
(* only produce DRIFT lines.                                               *)
(***************************************************************************)
EXTENDS SolverOps, TLC, Json, IOUtils

Traces == JsonDeserialize(IOEnv.TRACE_FILE)

VARIABLES tid,      \* which trace
          i,        \* index of the next event
          V,        \* value vector after the last validated event
          iter,     \* sweeps validated so far (must equal the reported iteration)
          budget,   \* sweeps the current solve() call may still perform; -1 = no call active
          stopped,  \* the current call has reported convergence
          pend,     \* the last sweep's measure was below the threshold: the loop must stop now
          gain,     \* RVI: gain after the last sweep
          hist,     \* PVI: all iterates V_0 .. V_iter
          perms,    \* SAVI: set of permutations seen
          lastp,    \* SAVI: the permutations of the last two sweeps
          verdict

vars == <<tid, i, V, iter, budget, stopped, pend, gain, hist, perms, lastp, verdict>>

T  == Traces[tid]
M  == T.m
Ev == T.ev[i]

Init ==
  /\ tid \in 1..Len(Traces)
  /\ i = 1
  /\ V = Traces[tid].start
  /\ iter = Traces[tid].iter0
  /\ budget = -1 /\ stopped = FALSE /\ pend = FALSE
  /\ gain = Traces[tid].gain0
  /\ hist = <<Traces[tid].start>>
  /\ perms = {} /\ lastp = <<>>
  /\ verdict = "running"

Reject(clause) ==
  /\ verdict' = "rejected"
  /\ PrintT(<<"REJECT", tid, i, clause>>)
  /\ UNCHANGED <<tid, i, V, iter, budget, stopped, pend, gain, hist, perms, lastp>>

Drift(what) == PrintT(<<"DRIFT", tid, what>>)

Running == verdict = "running" /\ i <= Len(T.ev)

(* ---------------------------------------------------------------- begin *)
Begin ==
  /\ Running /\ Ev.e = "begin"
  /\ IF budget # -1 THEN Reject("begin: previous solve() call has not returned")
     ELSE IF Ev.k < 1 THEN Reject("begin: non-positive limit (outside the property)")
     ELSE IF Ev.it # iter THEN Reject("begin: iteration count changed between calls")
     ELSE IF ~Ev.vok \/ Ev.v # V THEN Reject("begin: values changed between calls")
     ELSE IF iter = 0 /\ ~T.injected /\ V # T.v0
       THEN Reject("begin: a fresh solver does not start from the problem's own initial values")
     ELSE /\ budget' = Ev.k /\ stopped' = FALSE /\ pend' = FALSE
          /\ i' = i + 1
          /\ UNCHANGED <<tid, V, iter, gain, hist, perms, lastp, verdict>>

(* ---------------------------------------------------------------- sweep *)
SweepValuesOK(W) ==
  CASE T.kind = "VI"   -> IsBackup(M, W, V)
    [] T.kind = "PVI"  -> IsBackup(M, W, V)
    [] T.kind = "RVI"  -> IsBackupUpToConstant(M, W, V)
    [] T.kind = "SAVI" -> IsPermutation(Ev.perm, M.ns) /\ IsInverse(Ev.perm, Ev.pinv, M.ns)
                          /\ IsGSSweepInv(M, T.layout, Ev.pinv, W, V)

MeasureOK(W) ==
  CASE T.kind \in {"VI", "SAVI"} -> Ev.cok /\ Ev.c = Measure(T.test, W, V, M.ns)
    [] T.kind = "RVI"  -> Ev.cok /\ Ev.c = Measure("span", W, V, M.ns)
    [] T.kind = "PVI"  ->
         IF iter + 1 < T.period THEN Ev.inf                       \* never before one full period
         ELSE /\ ~Ev.inf /\ Ev.cok
              /\ IsPeriodMeasure(M, Append(hist, W), iter + 1, T.period, Ev.c)

Sweep ==
  /\ Running /\ Ev.e = "sweep"
  /\ IF budget = -1 THEN Reject("sweep: outside any solve() call")
     ELSE IF stopped \/ pend THEN Reject("sweep: the loop did not stop at the first sweep whose measure was below the threshold")
     ELSE IF budget = 0 THEN Reject("sweep: more sweeps than the limit given to solve()")
     ELSE IF Ev.it # iter + 1 THEN Reject("sweep: reported iteration is not the number of sweeps applied")
     ELSE IF ~Ev.f64 THEN Reject("sweep: values are not float64 although double precision is requested (the default)")
     ELSE IF ~Ev.vok THEN Reject("sweep: values are not exactly representable (rounding, wrong precision or wrong arithmetic)")
     ELSE IF T.kind = "SAVI" /\ ~IsPermutation(Ev.perm, M.ns)
       THEN Reject("sweep: the update order is not a permutation of all states")
     ELSE IF T.kind = "SAVI" /\ ~IsInverse(Ev.perm, Ev.pinv, M.ns)
       THEN Reject("MACHINERY: the inverse permutation supplied by the harness is not the inverse")
     ELSE IF T.kind = "SAVI" /\ Len(Ev.permref) > 0 /\ Ev.perm # Ev.permref
       THEN Reject("sweep: update order not reproducible from random_seed")
     \* (not in runs resumed from a checkpoint by a new instance: the key is not checkpointed, the chain restarts)
     ELSE IF T.kind = "SAVI" /\ T.shuffle /\ ~T.reloads /\ M.ns >= 7 /\ Len(lastp) = 2 /\ lastp[1] = Ev.perm /\ lastp[2] = Ev.perm
       THEN Reject("sweep: the same permutation in three consecutive sweeps (not drawn afresh for each sweep)")
     ELSE IF ~SweepValuesOK(Ev.v)
       THEN Reject(CASE T.kind = "SAVI" -> "sweep: values are not the block Gauss-Seidel backup in the documented order"
                     [] T.kind = "RVI"  -> "sweep: values are not the Bellman backup up to a common constant"
                     [] OTHER -> "sweep: values are not the exact Bellman backup of the previous values")
     ELSE IF ~MeasureOK(Ev.v) THEN Reject("sweep: convergence measure is not the documented one")
     ELSE /\ V' = Ev.v
          /\ iter' = iter + 1
          /\ budget' = budget - 1
          /\ pend' = IF T.kind = "PVI" /\ Ev.inf THEN FALSE
                     ELSE BelowThreshold(T.kind, M, Ev.c, T.eps)
          /\ hist' = IF T.kind = "PVI" THEN Append(hist, Ev.v) ELSE hist
          /\ perms' = IF T.kind = "SAVI" THEN perms \cup {Ev.perm} ELSE perms
          /\ lastp' = IF T.kind = "SAVI" THEN (IF Len(lastp) = 2 THEN <<lastp[2], Ev.perm>> ELSE Append(lastp, Ev.perm)) ELSE lastp
          /\ gain' = IF T.kind = "RVI" THEN Ev.g ELSE gain
          /\ (T.kind = "RVI" /\ (~Ev.gok \/ SubtractedNum(M, Ev.v, V) # gain * Den(M) \/ Ev.g # Ev.v[M.ns])) =>
                Drift("RVI gain bookkeeping differs from the model (subtract previous gain; gain := last state's value)")
          /\ i' = i + 1
          /\ UNCHANGED <<tid, stopped, verdict>>

(* ----------------------------------------------------------------- conv *)
Converged ==
  /\ Running /\ Ev.e = "conv"
  /\ IF budget = -1 THEN Reject("converged: outside any solve() call")
     ELSE IF ~pend THEN Reject("converged: convergence reported while the measure is at or above the threshold")
     ELSE IF Ev.it # iter THEN Reject("converged: wrong iteration")
     ELSE /\ stopped' = TRUE /\ pend' = FALSE
          /\ i' = i + 1
          /\ UNCHANGED <<tid, V, iter, budget, gain, hist, perms, lastp, verdict>>

(* ------------------------------------------------------------------ end *)
ToSet(seq) == {seq[k] : k \in 1..Len(seq)}
PolicyGreedy == \A s \in States(M) : \E a \in GreedySet(M, V, s) : a \in ToSet(Ev.pol[s])

CertOK ==
  /\ T.cert.kind = "discounted" =>
       /\ CertOptimal(M, T.cert.vsn, T.cert.cd)
       /\ CertPolicyValue(M, Ev.pick, T.cert.vpn, T.cert.cd)
  /\ T.cert.kind = "gain" =>
       /\ CertGainOptimal(M, T.cert.gn, T.cert.hn, T.cert.gd)
       /\ CertGainPolicy(M, Ev.pick, T.cert.pgn, T.cert.phn, T.cert.pgd)

(* C04 at convergence: gain within eps of optimal; policy's gain within eps of optimal;        *)
(* optimality-equation residual below eps at every state                                      *)
GainOK(g) ==
  /\ Abs(g * T.cert.gd - T.cert.gn) < T.eps * T.cert.gd
  /\ Abs(T.cert.pgn * T.cert.gd - T.cert.gn * T.cert.pgd) < T.eps * T.cert.gd * T.cert.pgd
  /\ \A s \in States(M) : Abs(GainResidualNum(M, V, g, s)) < T.eps * Den(M)

(* C07, undiscounted unichain: every component of (V_n - V_(n-p)) / p within eps/p of the optimal gain *)
PeriodGainOK ==
  LET n == iter
      p == T.period
  IN \A s \in States(M) :
       Abs((hist[n + 1][s] - hist[n - p + 1][s]) * T.cert.gd - p * T.cert.gn) < T.eps * T.cert.gd

End ==
  /\ Running /\ Ev.e = "end"
  /\ IF budget = -1 THEN Reject("end: solve() returned twice")
     ELSE IF pend THEN Reject("end: the loop did not report convergence although the measure was below the threshold")
     ELSE IF budget > 0 /\ ~stopped THEN Reject("end: returned before the limit without convergence")
     ELSE IF Ev.it # iter THEN Reject("end: reported iteration is not the number of sweeps applied")
     ELSE IF ~Ev.retok THEN Reject("end: the SolverState returned by solve() is not the state the solver holds (values, policy, iteration, gain, history index, period)")
     ELSE IF ~Ev.vhok THEN Reject("end: the returned value history does not hold the last period+1 iterates in its circular order")
     ELSE IF ~Ev.vok \/ Ev.v # V THEN Reject("end: returned values are not the values of the last sweep")
     ELSE IF ~Ev.polok THEN Reject("end: returned policy contains a vector that is not in the action space")
     ELSE IF ~PolicyGreedy THEN Reject("end: returned policy is not greedy for the returned values")
     ELSE IF T.kind = "SAVI" /\ T.shuffle /\ ~T.reloads /\ M.ns >= 4 /\ Cardinality(perms) = 1 /\ iter - T.iter0 >= 3
       THEN Reject("end: the same permutation was used in every sweep (not drawn afresh)")
     ELSE IF stopped /\ i = Len(T.ev) /\ T.cert.kind # "none" /\ ~CertOK
       THEN Reject("MACHINERY: certificate supplied by the harness does not verify")
     ELSE IF stopped /\ i = Len(T.ev) /\ T.cert.kind = "discounted" /\ T.kind # "PVI"
             /\ ~(T.kind = "SAVI" /\ T.test = "span")
             /\ ~NearOptimalPolicy(T.kind, T.test, M, T.eps, T.cert.vsn, T.cert.vpn, T.cert.cd)
       THEN Reject("end: converged, but the returned policy is not within the documented error bound of optimal")
     ELSE IF stopped /\ i = Len(T.ev) /\ T.cert.kind = "discounted" /\ T.kind # "PVI" /\ T.test = "max_diff"
             /\ ~ValuesNearOptimal(M, T.eps, V, T.cert.vsn, T.cert.cd)
       THEN Reject("end: converged under max_diff, but the returned values are not within epsilon of optimal")
     ELSE IF stopped /\ i = Len(T.ev) /\ T.cert.kind = "gain" /\ T.kind = "RVI" /\ ~(Ev.gok /\ GainOK(Ev.g))
       THEN Reject("end: converged, but gain / policy gain / optimality equation are not within epsilon")
     ELSE IF stopped /\ i = Len(T.ev) /\ T.cert.kind = "gain" /\ T.kind = "PVI" /\ ~PeriodGainOK
       THEN Reject("end: converged, but (V_n - V_(n-period))/period is not within epsilon/period of the optimal gain")
     ELSE /\ budget' = -1 /\ stopped' = FALSE
          /\ i' = i + 1
          /\ UNCHANGED <<tid, V, iter, pend, gain, hist, perms, lastp, verdict>>

Accept ==
  /\ verdict = "running" /\ i = Len(T.ev) + 1
  /\ IF T.complete /\ budget # -1 THEN Reject("trace ended inside a solve() call")
     ELSE /\ verdict' = "accepted"
          /\ PrintT(<<"ACCEPT", tid>>)
          /\ UNCHANGED <<tid, i, V, iter, budget, stopped, pend, gain, hist, perms, lastp>>

Next == Begin \/ Sweep \/ Converged \/ End \/ Accept
Spec == Init /\ [][Next]_vars
=============================================================================
