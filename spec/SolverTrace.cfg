SPECIFICATION Spec
