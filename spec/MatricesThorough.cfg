SPECIFICATION Spec
CONSTANTS
  NS = 3
  NA = 2
  NE = 3
  PDs = {2, 4}
  Gammas <- GammaM
  RewSet <- RewM
  Grid <- GridM
  NumGadgets = 6
  Tols <- TolsM
  Bug = "none"
INVARIANT AccumulationExact
INVARIANT SameOperator
INVARIANT RowsSumToOne
INVARIANT ErrorIffDeviation
INVARIANT FineReduces
