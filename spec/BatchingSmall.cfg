SPECIFICATION Spec
CONSTANTS
  Bug = "none"
  MaxN = 20
  MaxD = 4
  ExtraB = 2
  BigBs = {64}
INVARIANT InvLayout
INVARIANT InvPrepared
INVARIANT InvUnbatched
INVARIANT InvOnce
INVARIANT InvPadLast
