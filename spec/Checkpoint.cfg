SPECIFICATION Spec
CONSTANTS
  Freqs = {0, 1, 2, 3}
  Keeps = {1, 2}
  Asyncs = {TRUE, FALSE}
  ConvAts = {3, 5, 6}
  CallSeqs <- Calls1
  MaxGen = 3
  AllowExplicit = FALSE
  Bug = "none"
INVARIANT CommittedUntorn
INVARIANT LatestNeverDeleting
INVARIANT RestoreSound
INVARIANT Durable
INVARIANT ResumeEquivalence
INVARIANT CountIsTag
INVARIANT CadenceAndRetention
INVARIANT LastIterationSaved
INVARIANT NothingWrittenWhenDisabled
