SPECIFICATION Spec
CONSTANTS
  Bug = "none"
  MaxN = 80
  MaxD = 8
  ExtraB = 3
  BigBs = {64, 1024}
INVARIANT InvLayout
INVARIANT InvPrepared
INVARIANT InvUnbatched
