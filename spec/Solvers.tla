------------------------------- MODULE Solvers -------------------------------
(***************************************************************************)
(* Exhaustive model of the value-iteration family run to its stop on small *)
(* MDPs (gadgets), in exact rational arithmetic: a value vector is a pair  *)
(* (V, sc) meaning V[s] / sc; one sweep multiplies the scale by Den(m) and *)
(* common factors of two are cancelled.  The solver is modelled as the     *)
(* code does it, one action per critical section of solve():               *)
(*    Sweep (iteration += 1; backup; assign)  ->  Test (break or go on)    *)
(*    ->  Return (policy extraction).                                      *)
(* Named deviations of the code from the textbook are modelled and named:  *)
(*   RVI_GainIsLastStateAfterSubtraction  (gain := new value of the last   *)
(*     state after the previous gain was subtracted; it starts as the      *)
(*     initial value of that state)                                        *)
(*   PVI_InfiniteMeasureBeforeOnePeriod, PVI ring buffer of period+1 slots *)
(*                                                                         *)
(* Invariants are the layer-P statements of C01, C04, C07 evaluated on     *)
(* every run of the bounded family.                                        *)
(***************************************************************************)
EXTENDS SolverOps, DetValues, Randomization, TLC

CONSTANTS Kind,        \* "VI" | "RVI" | "PVI"
          NS, NA, NE,  \* gadget sizes
          PDs,         \* probability denominators
          Gammas,      \* set of <<GN, GD>>
          RewSet,      \* rewards (integers)
          V0Set,       \* initial values (integers)
          EpsSet,      \* set of <<epsN, epsD>>
          Tests,       \* subset of {"span", "max_diff"}
          Periods,     \* PVI periods
          NumGadgets,  \* how many random tables of each sort
          MaxScale,    \* exploration stops when the scale exceeds this
          MaxIter,
          Bug          \* "none", or a seeded design fault that must violate an invariant (anti-vacuity):
                       \*   "rvi_gain_zero"       gain starts at 0 whatever the initial values (the code before its fix)
                       \*   "pvi_ring_mod_period" ring-buffer arithmetic modulo period instead of period + 1
                       \*   "threshold_no_gamma"  discounted threshold eps instead of eps*(1-gamma)/gamma

GammaOne == {<<1, 1>>}
GammaHalf == {<<1, 2>>}
GammaSet3 == {<<1, 4>>, <<1, 2>>, <<3, 4>>}
GammaPVI == {<<1, 1>>, <<1, 2>>}
Rew5 == {-2, 0, 1, 3}
Rew3 == {-1, 0, 2}
V0a == {0, 5}
V0b == {-1, 0, 3}
EpsA == {<<1, 1>>, <<1, 4>>}
EpsB == {<<1, 2>>, <<2, 1>>}
VARIABLES m, eps, test, period,       \* fixed in Init
          V, sc,                      \* current values V / sc
          iter, gain,                 \* gain at scale sc (RVI)
          ring, hidx,                 \* PVI: ring buffer of (vector, scale) and newest slot
          all,                        \* PVI ghost: list of all iterates as (vector, scale)
          conv, cs,                   \* last measure conv / cs  (cs = its scale); cs = 0 : infinite
          pc, status, pol,
          prevV, prevSc, prevGain     \* state before the last sweep (for the invariants)

vars == <<m, eps, test, period, V, sc, iter, gain, ring, hidx, all, conv, cs, pc, status, pol,
          prevV, prevSc, prevGain>>

S == 1..NS
A == 1..NA
E == 1..NE

Rows(PD) == {r \in [E -> 0..PD] : SumTo(r, NE) = PD}

(* unichain aperiodic shaping for RVI: the last event of every (s,a) leads to the sink NS *)
(* with positive probability                                                             *)
Shape(nx, pk, PD) ==
  IF Kind # "RVI" THEN [next |-> nx, pk |-> pk]
  ELSE [next |-> [s \in S |-> [a \in A |-> [e \in E |-> IF e = NE THEN NS ELSE nx[s][a][e]]]],
        pk   |-> [s \in S |-> [a \in A |-> [e \in E |->
                    IF pk[s][a][NE] > 0 THEN pk[s][a][e]
                    ELSE IF e = NE THEN 1 ELSE IF e = 1 THEN PD - 1 ELSE 0]]]]

Gadgets ==
  UNION { UNION {
      LET nexts == RandomSubset(NumGadgets, [S -> [A -> [E -> S]]])
          rews  == RandomSubset(NumGadgets, [S -> [A -> [E -> RewSet]]])
          pks   == RandomSubset(NumGadgets, [S -> [A -> Rows(PD)]])
      IN { LET sh == Shape(nx, pk, PD)
           IN [ns |-> NS, na |-> NA, ne |-> NE, next |-> sh.next, rew |-> rw, pk |-> sh.pk,
               PD |-> PD, GN |-> g[1], GD |-> g[2]] :
             nx \in nexts, pk \in RandomSubset(2, pks),
             \* for RVI also constant-reward gadgets (their span collapses at the first sweep)
             rw \in RandomSubset(2, rews) \cup (IF Kind = "RVI"
                       THEN {[s \in S |-> [a \in A |-> [e \in E |-> r]]] : r \in {1, 3}} ELSE {}) }
      : g \in Gammas } : PD \in PDs }

(* ---- rational helpers ----------------------------------------------------*)
RECURSIVE ReduceBy2(_, _, _)
AllEven(f, n) == \A i \in 1..n : f[i] % 2 = 0
ReduceBy2(f, g, d) ==          \* cancel common factors of two of (vector f, scalar g, scale d)
  IF d % 2 = 0 /\ d > 1 /\ AllEven(f, Len(f)) /\ g % 2 = 0
  THEN ReduceBy2([i \in 1..Len(f) |-> f[i] \div 2], g \div 2, d \div 2)
  ELSE <<f, g, d>>

(* rewards lifted to scale d *)
AtScale(mm, d) == [mm EXCEPT !.rew = [s \in S |-> [a \in A |-> [e \in E |-> mm.rew[s][a][e] * d]]]]

(* conv/cs < threshold(eps) ?   eps = <<n, d>> *)
Below(c, d) ==
  IF d = 0 THEN FALSE
  ELSE IF Kind \in {"RVI", "PVI"} \/ m.GN = m.GD \/ Bug = "threshold_no_gamma"
  THEN c * eps[2] < eps[1] * d
  ELSE c * m.GN * eps[2] < eps[1] * (m.GD - m.GN) * d

(* ---- Init ------------------------------------------------------------------*)
Init ==
  /\ m \in Gadgets
  /\ eps \in EpsSet /\ test \in Tests /\ period \in Periods
  /\ V \in [S -> V0Set] /\ sc = 1
  /\ iter = 0
  /\ gain = IF Kind = "RVI" /\ Bug # "rvi_gain_zero" THEN V[NS] ELSE 0   \* gain starts as the reference state's initial value
  /\ ring = [k \in 1..(period + 1) |-> IF k = 1 THEN <<V, 1>> ELSE <<[s \in S |-> 0], 1>>]
  /\ hidx = 1
  /\ all = <<<<V, 1>>>>
  /\ conv = 0 /\ cs = 0
  /\ pc = "top" /\ status = "running" /\ pol = [s \in S |-> 0]
  /\ prevV = V /\ prevSc = 1 /\ prevGain = 0

(* ---- measures ---------------------------------------------------------------*)
(* vector x at scale dx expressed at scale d (d multiple of dx) *)
Lift(x, dx, d) == [s \in S |-> x[s] * (d \div dx)]

(* documented periodic measure from the list of ALL iterates; n = iteration just finished,    *)
(* returned as <<num, scale>>                                                                 *)
DocMeasure(allNew, n, d) ==
  IF n < period THEN <<0, 0>>
  ELSE IF m.GN = m.GD
  THEN <<SpanOf(Diff(Lift(allNew[n + 1][1], allNew[n + 1][2], d),
                     Lift(allNew[n - period + 1][1], allNew[n - period + 1][2], d), NS), NS), d>>
  ELSE LET term(q, s) ==
             LET j == n - q + 1
             IN (Lift(allNew[j + 1][1], allNew[j + 1][2], d)[s] - Lift(allNew[j][1], allNew[j][2], d)[s])
                  * Pow(m.GD, j - 1) * Pow(m.GN, n - j)
       IN <<SpanOf([s \in S |-> SumTo([q \in 1..period |-> term(q, s)], period)], NS),
            d * Pow(m.GN, n - 1)>>

(* the code's ring-buffer measure: PVI_InfiniteMeasureBeforeOnePeriod; slot arithmetic as in the code *)
RingSize == IF Bug = "pvi_ring_mod_period" /\ period > 1 THEN period ELSE period + 1
Slot(k) == ((k - 1) % RingSize) + 1                      \* 1-based slots
RingMeasure(ringNew, hNew, n, d) ==
  IF n < period THEN <<0, 0>>
  ELSE IF m.GN = m.GD
  THEN LET prev == Slot(hNew + 1)
       IN <<SpanOf(Diff(Lift(ringNew[hNew][1], ringNew[hNew][2], d),
                        Lift(ringNew[prev][1], ringNew[prev][2], d), NS), NS), d>>
  ELSE LET term(q, s) ==                  \* q = p + 1 in the code's loop, p = 0..period-1
             LET cur == Slot(hNew - (q - 1) + RingSize)
                 prv == Slot(cur - 1 + RingSize)
             IN (Lift(ringNew[cur][1], ringNew[cur][2], d)[s] - Lift(ringNew[prv][1], ringNew[prv][2], d)[s])
                  * Pow(m.GD, n - (q - 1) - 1) * Pow(m.GN, q - 1)
       IN <<SpanOf([s \in S |-> SumTo([q \in 1..period |-> term(q, s)], period)], NS),
            d * Pow(m.GN, n - 1)>>

(* ---- Sweep -------------------------------------------------------------------*)
Sweep ==
  /\ pc = "top" /\ status = "running" /\ iter < MaxIter /\ sc * Den(m) <= MaxScale
  /\ LET d1  == sc * Den(m)
         B   == BackupNum(AtScale(m, sc), V)                     \* T V at scale d1
         W   == IF Kind = "RVI" THEN [s \in S |-> B[s] - gain * Den(m)] ELSE B   \* subtract previous gain
         g1  == IF Kind = "RVI" THEN W[NS] ELSE 0               \* RVI_GainIsLastStateAfterSubtraction
         red == IF Kind = "PVI" THEN <<W, g1, d1>> ELSE ReduceBy2(W, g1, d1)   \* PVI keeps scales monotone
         Vl  == Lift(V, sc, d1)
         c   == IF Kind = "PVI" THEN 0
                ELSE IF Kind = "RVI" \/ test = "span" THEN SpanOf(Diff(W, Vl, NS), NS)
                ELSE MaxAbsOf(Diff(W, Vl, NS), NS)
         hNew    == Slot(hidx + 1)
         ringNew == [ring EXCEPT ![hNew] = <<red[1], red[3]>>]
         allNew  == Append(all, <<red[1], red[3]>>)
         pm      == RingMeasure(ringNew, hNew, iter + 1, d1)
     IN /\ prevV' = V /\ prevSc' = sc /\ prevGain' = gain
        /\ V' = red[1] /\ gain' = red[2] /\ sc' = red[3]
        /\ iter' = iter + 1
        /\ IF Kind = "PVI"
           THEN /\ ring' = ringNew /\ hidx' = hNew /\ all' = allNew
                /\ conv' = pm[1] /\ cs' = pm[2]
           ELSE /\ UNCHANGED <<ring, hidx, all>>
                /\ conv' = c /\ cs' = d1
        /\ pc' = "swept"
        /\ UNCHANGED <<m, eps, test, period, status, pol>>

Test ==
  /\ pc = "swept"
  /\ IF Below(conv, cs) THEN status' = "converged" /\ pc' = "after"
     ELSE status' = status /\ pc' = "top"
  /\ UNCHANGED <<m, eps, test, period, V, sc, iter, gain, ring, hidx, all, conv, cs, pol,
                 prevV, prevSc, prevGain>>

GiveUp ==   \* the bounded exploration ends without convergence (limit / scale bound)
  /\ pc = "top" /\ status = "running" /\ (iter >= MaxIter \/ sc * Den(m) > MaxScale)
  /\ status' = "limit" /\ pc' = "after"
  /\ UNCHANGED <<m, eps, test, period, V, sc, iter, gain, ring, hidx, all, conv, cs, pol,
                 prevV, prevSc, prevGain>>

Return ==
  /\ pc = "after"
  /\ pol' = [s \in S |-> FirstGreedy(AtScale(m, sc), V, s)]
  /\ pc' = "done"
  /\ UNCHANGED <<m, eps, test, period, V, sc, iter, gain, ring, hidx, all, conv, cs, status,
                 prevV, prevSc, prevGain>>

Next == Sweep \/ Test \/ GiveUp \/ Return
Spec == Init /\ [][Next]_vars

(* ---- invariants ----------------------------------------------------------------*)
WellFormedInv == WellFormed(m)

(* C07: the ring-buffer measure equals the documented measure on the list of all iterates,     *)
(* for every iteration (wraps of the buffer included); infinite exactly before one period      *)
RingEqualsDocumented ==
  (Kind = "PVI" /\ pc = "swept") =>
     LET dm == DocMeasure(all, iter, cs)
     IN IF iter < period THEN cs = 0
        ELSE cs # 0 /\ dm[2] = cs /\ dm[1] = conv

(* C07: iterates are plain value iteration's (each is the exact backup of its predecessor) *)
PVIIteratesArePlainVI ==
  (Kind = "PVI" /\ pc = "swept") =>
     \A s \in S : V[s] * (prevSc * Den(m)) = BackupNum(AtScale(m, prevSc), prevV)[s] * sc

(* C04: at convergence the optimality equation holds within eps at every state with the        *)
(* reported gain:  | h[s] + gain - (T h)[s] | < eps    (all at scale sc * Den)                   *)
RVIResidualWithinEps ==
  (Kind = "RVI" /\ status = "converged" /\ pc \in {"after", "done"}) =>
     \A s \in S :
        Abs((V[s] + gain) * Den(m) - BackupNum(AtScale(m, sc), V)[s]) * eps[2] < eps[1] * sc * Den(m)

(* History: with the gain initialised to 0 (the code before the "fix:" commit recorded in       *)
(* known_findings.json) TLC violated this invariant with iter = 1 and prevV[NS] # 0.            *)

(* C04: relative values stay bounded (they do not grow with the iteration count): after the     *)
(* first sweep |h[s]| <= 2 * NS * (max |reward|) + span of the initial values                    *)
RVIBounded ==
  (Kind = "RVI" /\ iter >= 2) =>
     \A s \in S : Abs(V[s]) <= (2 * NS * 10 + 20) * sc


(* ---- C01 on deterministic gadgets: optimal values in closed form (module DetValues) ----------*)
IsDeterministic == NE = 1

(* documented loss bound of the returned policy: eps (span), 2*eps (max_diff) *)
VINearOptimal ==
  (Kind = "VI" /\ IsDeterministic /\ status = "converged" /\ pc = "done" /\ m.GN < m.GD /\ m.GN > 0) =>
     \A s \in S :
        LET loss == RSub(DetOptimalValue(m, s), DetPolicyValue(m, pol, s))
        IN /\ RLe(<<0, 1>>, loss)
           /\ RLe(loss, <<(IF test = "span" THEN 1 ELSE 2) * eps[1], eps[2]>>)

(* under max_diff the returned values are within eps of the optimal values *)
VIValuesNearOptimal ==
  (Kind = "VI" /\ IsDeterministic /\ status = "converged" /\ pc = "done" /\ test = "max_diff"
     /\ m.GN < m.GD /\ m.GN > 0) =>
     \A s \in S : RLt(RAbs(RSub(RNorm(<<V[s], sc>>), DetOptimalValue(m, s))), <<eps[1], eps[2]>>)

(* C08 inside the model: convergence is never reported with the measure at or above threshold *)
ConvergedMeansBelow == status = "converged" => Below(conv, cs)
=============================================================================
