SPECIFICATION Spec
CONSTANTS
  NS = 3
  NA = 2
  NE = 2
  PDs = {1, 2}
  Gammas <- GammaPI
  RewSet <- RewPI
  EpsSet <- EpsPI
  Tests = {"span", "max_diff"}
  Budgets = {1, 2, 5}
  Resets = {TRUE, FALSE}
  NumGadgets = 6
  MaxScale = 4194304
  MaxOuter = 6
  Bug = "none"
  ActVec <- VecDistinct
INVARIANT EvalWithinBudget
INVARIANT StopMeansStable
INVARIANT ReturnedGreedy
INVARIANT ReturnedIterateTested
