----------------------------- MODULE RangeSpace -----------------------------
(***************************************************************************)
(* Exhaustive check of the documented range-space functions over all boxes *)
(* of dimension 1..MaxDim with bounds in Lo..Hi: construct the space, then *)
(* query every vector of the box enlarged by one unit in every direction.  *)
(***************************************************************************)
EXTENDS RangeSpaceOps

CONSTANTS MaxDim, Lo, Hi
NegOne == -1
NegTwo == -2
VARIABLES phase, mins, maxs, space, q, ans

vars == <<phase, mins, maxs, space, q, ans>>

Vecs(dim, lo, hi) == [1..dim -> lo..hi]

Init ==
  /\ phase = "new"
  /\ \E dim \in 1..MaxDim :
       /\ mins \in Vecs(dim, Lo, Hi)
       /\ maxs \in Vecs(dim, Lo, Hi)
       /\ \A k \in 1..dim : mins[k] <= maxs[k]
  /\ space = <<>> /\ q = <<>> /\ ans = -1

Construct ==
  /\ phase = "new"
  /\ space' = Enumerate(mins, maxs)
  /\ phase' = "built"
  /\ UNCHANGED <<mins, maxs, q, ans>>

Query ==
  /\ phase = "built"
  /\ \E v \in Vecs(Dim(mins), Lo - 1, Hi + 1) :
        /\ \A k \in 1..Dim(mins) : mins[k] - 1 <= v[k] /\ v[k] <= maxs[k] + 1
        /\ q' = v
        /\ ans' = Index(mins, maxs, v)
  /\ phase' = "answered"
  /\ UNCHANGED <<mins, maxs, space>>

Next == Construct \/ Query
Spec == Init /\ [][Next]_vars

InvSpace  == phase # "new" => SpaceOK(mins, maxs, space)
InvNoDup  == phase = "built" =>
               \A i \in 1..Len(space) : \A j \in 1..Len(space) : space[i] = space[j] => i = j
InvAllIn  == phase = "built" => \A i \in 1..Len(space) : InBox(mins, maxs, space[i])
InvIndex  == phase = "answered" => IndexOK(mins, maxs, space, q, ans)
InvInverse == phase = "answered" /\ InBox(mins, maxs, q) => space[ans + 1] = q
(* the sampled judgement used for boxes too large to list agrees with the full one *)
InvSampledAgrees ==
  /\ phase # "new" => SampledSpaceOK(mins, maxs, Len(space), [r \in 1..Len(space) |-> r], space)
  /\ phase = "answered" => SampledIndexOK(mins, maxs, Len(space), q, ans)
=============================================================================
