SPECIFICATION Spec
CONSTANTS
  Freqs = {1, 2}
  Keeps = {2, 3}
  Asyncs = {TRUE, FALSE}
  ConvAts = {5}
  CallSeqs <- Calls1
  MaxGen = 3
  AllowExplicit = TRUE
  Bug = "none"
INVARIANT CommittedUntorn
INVARIANT LatestNeverDeleting
INVARIANT RestoreSound
INVARIANT CountIsTag
INVARIANT LastIterationSaved_KF
