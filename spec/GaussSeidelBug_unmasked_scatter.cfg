SPECIFICATION Spec
CONSTANTS
  Bug = "unmasked_scatter"
  N = 5
  MaxB = 6
  MaxD = 3
  Z = 1
  Shuffle = TRUE
INVARIANT WrittenAtMostOnce
INVARIANT WrittenExactlyOnce
INVARIANT ReadSetRule
INVARIANT NaturalOrder
INVARIANT PaddingOnlyAfterRealRows
