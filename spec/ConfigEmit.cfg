SPECIFICATION Spec
