---------------------------- MODULE MatricesTrace ----------------------------
(***************************************************************************)
(* Judges outcomes of the real build_transition_and_reward_matrices on     *)
(* table MDPs against MatricesOps.  Observation: the tables, the tolerance *)
(* tn/td, the outcome ("ok" with integer matrices P*PD and R*PD at the     *)
(* reward scale, or "error" with the named (state, action) pair).          *)
(***************************************************************************)
EXTENDS MatricesOps, TLC, Json, IOUtils

Obs == JsonDeserialize(IOEnv.TRACE_FILE)
VARIABLES tid, verdict
vars == <<tid, verdict>>
O == Obs[tid]
M == O.m

Init == tid \in 1..Len(Obs) /\ verdict = "running"

Reject(clause) == verdict' = "rejected" /\ PrintT(<<"REJECT", tid, clause>>) /\ UNCHANGED tid

(* O.fk: fine parts of the probabilities in units of 2^-O.K, O.tf: fine part of the tolerance (all zero in most  *)
(* observations).  The fine unit must be negligible against one coarse step, else the observation is malformed.   *)
MaxFine == 64
FineNegligible ==
  /\ O.K >= 35 /\ M.PD * O.td <= 16777216 /\ O.tf \in 0..MaxFine
  /\ \A s \in States(M) : \A a \in Actions(M) : \A e \in Events(M) : O.fk[s][a][e] \in (0 - 8)..8
HasFine == O.tf # 0 \/ \E s \in States(M) : \E a \in Actions(M) : \E e \in Events(M) : O.fk[s][a][e] # 0

Judge ==
  /\ verdict = "running"
  /\ IF HasFine /\ ~FineNegligible THEN Reject("MACHINERY: fine parts are not negligible against a coarse step")
     ELSE IF SomeDeviatesF(M, O.fk, O.tn, O.td, O.tf)
     THEN (IF O.outcome # "error"
             THEN Reject("a state-action pair deviates from one by more than the tolerance but no ValueError was raised")
           ELSE IF ~(O.errs \in States(M) /\ O.erra \in Actions(M) /\ DeviatesF(M, O.fk, O.errs, O.erra, O.tn, O.td, O.tf))
             THEN Reject("the ValueError does not name a pair that deviates by more than the tolerance")
           ELSE verdict' = "accepted" /\ PrintT(<<"ACCEPT", tid>>) /\ UNCHANGED tid)
     ELSE IF O.outcome # "ok" THEN Reject("an error was raised although every row is within the tolerance")
     ELSE IF ~O.shapeok THEN Reject("returned matrices do not have shapes [A,S,S] and [S,A]")
     ELSE IF ~O.unit THEN Reject("a returned transition row does not sum to one")
     ELSE IF HasFine THEN (IF ~O.propok
                             THEN Reject("renormalised transition entries are not proportional to the accumulated probabilities")
                           ELSE verdict' = "accepted" /\ PrintT(<<"ACCEPT", tid>>) /\ UNCHANGED tid)
     ELSE IF AllExact(M) /\ ~(O.pok /\ O.P = PNum(M))
       THEN Reject("transition entry is not the total probability of the events leading to that successor")
     ELSE IF ~AllExact(M) /\ ~O.propok
       THEN Reject("renormalised transition entries are not proportional to the accumulated probabilities")
     ELSE IF ~(O.rok /\ O.R = RNum(M))
       THEN Reject("reward entry is not the expected immediate reward")
     ELSE verdict' = "accepted" /\ PrintT(<<"ACCEPT", tid>>) /\ UNCHANGED tid

Next == Judge
Spec == Init /\ [][Next]_vars
=============================================================================
