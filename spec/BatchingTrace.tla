--------------------------- MODULE BatchingTrace ---------------------------
(***************************************************************************)
(* Judges observations recorded from the real BatchProcessor against       *)
(* module Batching.  One behaviour per observation:                        *)
(*    new -> laid_out -> prepared -> unbatched(1) -> (2) -> (3) -> done    *)
(* Each step evaluates the layer-P predicate of C18 on what the code       *)
(* actually returned.  A failing clause prints <<"REJECT", tid, clause>>;  *)
(* a deviation from the documented layout that still satisfies layer P     *)
(* prints <<"DRIFT", tid, clause>>; every observation ends with exactly    *)
(* one <<"ACCEPT", tid>> or <<"REJECT", ...>>.                             *)
(***************************************************************************)
EXTENDS Integers, Sequences, FiniteSets, TLC, Json, IOUtils

B == INSTANCE BatchingOps

Obs == JsonDeserialize(IOEnv.TRACE_FILE)

VARIABLES tid, step, verdict
vars == <<tid, step, verdict>>

O(t) == Obs[t]
LayoutOf(o) == [nd |-> o.nd, nb |-> o.nb, bs |-> o.bs, pad |-> o.pad]

Init == tid \in 1..Len(Obs) /\ step = "new" /\ verdict = "running"

Reject(clause) == /\ verdict' = "rejected"
                  /\ PrintT(<<"REJECT", tid, clause>>)
                  /\ UNCHANGED <<tid, step>>

Advance(s) == step' = s /\ UNCHANGED <<tid, verdict>>

(* value planted by the harness at slot i (1-based), trailing offset t (0-based) *)
Planted(i, t) == i * 100 + t

CheckLayout ==
  /\ step = "new" /\ verdict = "running"
  /\ LET o == O(tid) IN
     IF ~B!LayoutOK(o.n, o.maxb, o.d, LayoutOf(o))
     THEN Reject("layout: not (1 <= batch_size <= max_batch_size, pad >= 0, slots = n + pad, n_devices = requested)")
     ELSE /\ (LayoutOf(o) # B!Layout(o.n, o.maxb, o.d)) =>
                PrintT(<<"DRIFT", tid, "layout differs from the documented Layout(n, maxb, d)">>)
          \* layouts with tens of millions of slots are observed through their attributes only
          /\ Advance(IF o.attrsonly THEN "unbatched3" ELSE "laid_out")

CheckPrepared ==
  /\ step = "laid_out" /\ verdict = "running"
  /\ LET o == O(tid) IN
     IF ~B!PreparedOK(o.n, LayoutOf(o), o.flat)
     THEN Reject("prepare_batches: states not in original order followed only by padding")
     \* the same states presented as float rows with a fractional part (s + 1/2), read back as s (0 = padding)
     ELSE IF ~B!PreparedOK(o.n, LayoutOf(o), o.flatf)
     THEN Reject("prepare_batches: float-valued states are not preserved (values or dtype changed)")
     ELSE Advance("prepared")

CheckUnbatch(k, from, to) ==
  /\ step = from /\ verdict = "running"
  /\ LET o == O(tid)
         out == o.un[k]
         w == o.width[k]
     IN
     IF ~(/\ Len(out) = o.n * w
          /\ \A i \in 1..o.n : \A t \in 0..(w - 1) : out[(i - 1) * w + t + 1] = Planted(i, t))
     THEN Reject("unbatch_results: not exactly one row per state in original order")
     ELSE Advance(to)

Done ==
  /\ step = "unbatched3" /\ verdict = "running"
  /\ verdict' = "accepted"
  /\ PrintT(<<"ACCEPT", tid>>)
  /\ UNCHANGED <<tid, step>>

Next == \/ CheckLayout \/ CheckPrepared
        \/ CheckUnbatch(1, "prepared", "unbatched1")
        \/ CheckUnbatch(2, "unbatched1", "unbatched2")
        \/ CheckUnbatch(3, "unbatched2", "unbatched3")
        \/ Done

Spec == Init /\ [][Next]_vars
=============================================================================
