------------------------------ MODULE SolverOps ------------------------------
(***************************************************************************)
(* What one sweep, the convergence measure and the stopping threshold of   *)
(* each value-iteration-family solver are, over the exact arithmetic of    *)
(* TabularMDP.  Shared by the exhaustive model (Solvers.tla) and by the    *)
(* trace specification (SolverTrace.tla): one source of truth.             *)
(*                                                                         *)
(* kinds: "VI" value iteration, "SAVI" semi-asynchronous VI, "RVI"         *)
(* relative VI, "PVI" periodic VI.  (Policy iteration: PIOps.tla.)         *)
(***************************************************************************)
EXTENDS TabularMDP, BatchingOps

(* ---- thresholds (documented) --------------------------------------------*)
(* discounted span / max_diff: conv < eps*(1-gamma)/gamma; eps when gamma = 1; eps for RVI, PVI *)
(* conv and eps are integers at the same scale.                                               *)
BelowThreshold(kind, m, conv, eps) ==
  IF kind \in {"RVI", "PVI"} \/ m.GN = m.GD
  THEN conv < eps
  ELSE conv * m.GN < eps * (m.GD - m.GN)

(* ---- measures on observed (exact, same-scale) vectors ---------------------*)
Diff(W, V, n) == [s \in 1..n |-> W[s] - V[s]]
Measure(test, W, V, n) ==
  IF test = "span" THEN SpanOf(Diff(W, V, n), n) ELSE MaxAbsOf(Diff(W, V, n), n)

(* ---- synchronous sweep ----------------------------------------------------*)
(* W is the exact Bellman backup of V *)
IsBackup(m, W, V) == \A s \in States(m) : W[s] * Den(m) = BackupNum(m, V)[s]

(* W is the backup of V up to one common additive constant (relative value iteration:     *)
(* any variant subtracts a scalar from every component)                                    *)
IsBackupUpToConstant(m, W, V) ==
  LET B == BackupNum(m, V)
  IN \A s \in States(m) : B[s] - W[s] * Den(m) = B[1] - W[1] * Den(m)

(* the constant subtracted, times Den *)
SubtractedNum(m, W, V) == BackupNum(m, V)[1] - W[1] * Den(m)

(* ---- semi-asynchronous sweep (block Gauss-Seidel) -------------------------*)
(* perm[j] = state at shuffled position j (1..ns); L the batch layout.        *)
IsPermutation(perm, n) ==
  /\ Len(perm) = n
  /\ \A j \in 1..n : perm[j] \in 1..n
  /\ Cardinality({perm[j] : j \in 1..n}) = n

(* pinv is the inverse of perm (position of every state).  The trace supplies it and the specification VERIFIES it   *)
(* in one pass - looking positions up by searching perm would make a sweep over n states cost n^2 (n^3) steps.     *)
IsInverse(perm, pinv, n) ==
  /\ Len(pinv) = n
  /\ \A j \in 1..n : pinv[perm[j]] = j

PosOf(perm, s) == CHOOSE j \in 1..Len(perm) : perm[j] = s

(* t has already been updated when s is processed: same device, earlier batch *)
UpdatedBeforeAt(L, pt, ps) == DevOf(L, pt) = DevOf(L, ps) /\ BatchOf(L, pt) < BatchOf(L, ps)
UpdatedBefore(L, perm, t, s) == UpdatedBeforeAt(L, PosOf(perm, t), PosOf(perm, s))

(* the vector state s reads: new values W of states updated before it, old values V otherwise *)
CarryFor(m, L, perm, W, V, s) ==
  [t \in States(m) |-> IF UpdatedBefore(L, perm, t, s) THEN W[t] ELSE V[t]]
CarryForInv(m, L, pinv, W, V, s) ==
  [t \in States(m) |-> IF UpdatedBeforeAt(L, pinv[t], pinv[s]) THEN W[t] ELSE V[t]]

(* W is the block Gauss-Seidel sweep of V in the order given by (L, perm); because W is the   *)
(* observed (exact) result, earlier batches' new values are read from W itself (induction     *)
(* over batches), which keeps every number at the base scale.                                  *)
IsGSSweep(m, L, perm, W, V) ==
  \A s \in States(m) :
     W[s] * Den(m) = MaxTo(QRow(m, CarryFor(m, L, perm, W, V, s), s), m.na)
(* the same with positions read from a verified inverse *)
IsGSSweepInv(m, L, pinv, W, V) ==
  \A s \in States(m) :
     W[s] * Den(m) = MaxTo(QRow(m, CarryForInv(m, L, pinv, W, V, s), s), m.na)

(* ---- periodic value iteration: the documented measure ---------------------*)
(* iterates: sequence with iterates[j+1] = V_j (j = 0..n).  period p.         *)
RECURSIVE Pow(_, _)
Pow(b, e) == IF e = 0 THEN 1 ELSE b * Pow(b, e - 1)

(* gamma = 1: span(V_n - V_(n-p)) *)
PeriodMeasureUndiscounted(iterates, n, p, ns) ==
  SpanOf(Diff(iterates[n + 1], iterates[n - p + 1], ns), ns)

(* gamma < 1: span of sum_{j=n-p+1..n} (V_j - V_(j-1)) / gamma^(j-1); returned multiplied by    *)
(* GN^(n-1) so that no division occurs:  sum_j (V_j - V_(j-1)) * GD^(j-1) * GN^(n-j)            *)
PeriodSumNum(m, iterates, n, p, s) ==
  SumTo([q \in 1..p |->
           LET j == n - q + 1
           IN (iterates[j + 1][s] - iterates[j][s]) * Pow(m.GD, j - 1) * Pow(m.GN, n - j)], p)

PeriodMeasureDiscountedNum(m, iterates, n, p, ns) ==
  SpanOf([s \in 1..ns |-> PeriodSumNum(m, iterates, n, p, s)], ns)

(* is the observed measure c the documented one? *)
IsPeriodMeasure(m, iterates, n, p, c) ==
  IF m.GN = m.GD
  THEN c = PeriodMeasureUndiscounted(iterates, n, p, m.ns)
  ELSE c * Pow(m.GN, n - 1) = PeriodMeasureDiscountedNum(m, iterates, n, p, m.ns)

(* ---- error bounds of C01 (certificates over a common denominator cd) -----*)
(* policy loss bound B, as a pair <<num, den>> times eps:                     *)
(*   VI span: eps;  VI max_diff: 2 eps;  SAVI max_diff: 2*gamma*eps/(1-gamma) *)
LossBoundNum(kind, test, m) ==
  IF kind = "SAVI" THEN 2 * m.GN ELSE IF test = "span" THEN 1 ELSE 2
LossBoundDen(kind, test, m) ==
  IF kind = "SAVI" THEN m.GD - m.GN ELSE 1

(* optimal value vsn/cd, value of returned policy vpn/cd (same scale as eps) *)
NearOptimalPolicy(kind, test, m, eps, vsn, vpn, cd) ==
  \A s \in States(m) :
     /\ vpn[s] <= vsn[s]                                         \* sanity: nothing beats the optimum
     /\ (vsn[s] - vpn[s]) * LossBoundDen(kind, test, m)
          <= LossBoundNum(kind, test, m) * eps * cd[s]

(* under max_diff the returned values are within eps of the optimal values *)
ValuesNearOptimal(m, eps, V, vsn, cd) ==
  \A s \in States(m) : Abs(V[s] * cd[s] - vsn[s]) <= eps * cd[s]

(* ---- average reward (C04): certificates g = gn/gd, bias hn/gd ------------*)
(* (gn, hn) over denominator gd solve  h + g = T h  (gamma = 1), which for a unichain MDP pins  *)
(* g to the optimal gain.  All at the trace scale.                                            *)
GainQ(m, hn, gd, s, a) ==
  SumTo([e \in Events(m) |-> m.pk[s][a][e] * (m.rew[s][a][e] * gd + hn[m.next[s][a][e]])], m.ne)

CertGainOptimal(m, gn, hn, gd) ==
  /\ gd > 0
  /\ \A s \in States(m) :
       MaxTo([a \in Actions(m) |-> GainQ(m, hn, gd, s, a)], m.na) = (hn[s] + gn) * m.PD

CertGainPolicy(m, pol, gn, hn, gd) ==
  /\ gd > 0
  /\ \A s \in States(m) : GainQ(m, hn, gd, s, pol[s]) = (hn[s] + gn) * m.PD

(* residual of the optimality equation for observed (h, gain): PD * (h[s] + gain - (T h)[s]) *)
GainResidualNum(m, h, gain, s) == (h[s] + gain) * Den(m) - BackupNum(m, h)[s]
=============================================================================
