---------------------------- MODULE RangeSpaceOps ----------------------------
(***************************************************************************)
(* Integer boxes as documented for mdpax.utils.spaces.create_range_space:  *)
(* the space lists every integer vector of the box [mins, maxs] (bounds    *)
(* inclusive) exactly once in row-major (C) order, and the index function  *)
(* maps a listed vector to its row, clipping every coordinate of an        *)
(* out-of-range vector to the nearest bound.                               *)
(***************************************************************************)
EXTENDS Integers, Sequences, FiniteSets

Dim(mins) == Len(mins)
Width(mins, maxs, k) == maxs[k] - mins[k] + 1

RECURSIVE ProdFrom(_, _, _)
ProdFrom(mins, maxs, k) ==          \* product of widths of dimensions k..Dim
  IF k > Dim(mins) THEN 1 ELSE Width(mins, maxs, k) * ProdFrom(mins, maxs, k + 1)

Size(mins, maxs) == ProdFrom(mins, maxs, 1)

(* row (1-based) -> vector, row-major: the last coordinate varies fastest *)
RowVector(mins, maxs, r) ==
  [k \in 1..Dim(mins) |->
     mins[k] + (((r - 1) \div ProdFrom(mins, maxs, k + 1)) % Width(mins, maxs, k))]

Enumerate(mins, maxs) == [r \in 1..Size(mins, maxs) |-> RowVector(mins, maxs, r)]

Clip(x, lo, hi) == IF x < lo THEN lo ELSE IF x > hi THEN hi ELSE x

RECURSIVE IndexFrom(_, _, _, _)
IndexFrom(mins, maxs, v, k) ==
  IF k > Dim(mins) THEN 0
  ELSE (Clip(v[k], mins[k], maxs[k]) - mins[k]) * ProdFrom(mins, maxs, k + 1)
       + IndexFrom(mins, maxs, v, k + 1)

(* 0-based row number of v (clipped into the box) *)
Index(mins, maxs, v) == IndexFrom(mins, maxs, v, 1)

InBox(mins, maxs, v) == \A k \in 1..Dim(mins) : mins[k] <= v[k] /\ v[k] <= maxs[k]
ClipVec(mins, maxs, v) == [k \in 1..Dim(mins) |-> Clip(v[k], mins[k], maxs[k])]

(* ---- layer P ------------------------------------------------------------ *)
(* `space` is a sequence of vectors claimed to enumerate the box *)
SpaceOK(mins, maxs, space) ==
  /\ Len(space) = Size(mins, maxs)
  /\ \A r \in 1..Len(space) : space[r] = RowVector(mins, maxs, r)      \* row-major, hence once each

(* idx is the observed 0-based index of vector v *)
IndexOK(mins, maxs, space, v, idx) ==
  /\ idx >= 0 /\ idx < Len(space)                                       \* always a valid row
  /\ space[idx + 1] = ClipVec(mins, maxs, v)                            \* own row / nearest in each coordinate

(* ---- sampled observations of boxes too large to list ----------------------- *)
(* nrows = observed number of rows; rows = sampled 1-based row numbers, vecs = the rows found there *)
SampledSpaceOK(mins, maxs, nrows, rows, vecs) ==
  /\ nrows = Size(mins, maxs)
  /\ Len(rows) = Len(vecs)
  /\ \A k \in 1..Len(rows) : rows[k] \in 1..nrows /\ vecs[k] = RowVector(mins, maxs, rows[k])

(* without the listed space the row an index points at is the documented one (checked on the samples) *)
SampledIndexOK(mins, maxs, nrows, v, idx) ==
  /\ idx >= 0 /\ idx < nrows
  /\ RowVector(mins, maxs, idx + 1) = ClipVec(mins, maxs, v)
=============================================================================
