SPECIFICATION Spec
