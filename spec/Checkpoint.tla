------------------------------ MODULE Checkpoint ------------------------------
(***************************************************************************)
(* The checkpoint subsystem of mdpax (C09-C12): a solver thread running    *)
(* the solve() loop with periodic and final saves, Orbax's writer thread   *)
(* (temporary directory -> item writes -> atomic rename = commit ->        *)
(* retention deletes), a persistent directory, crashes of the whole        *)
(* process at any moment, and restarts that restore from the directory.    *)
(*                                                                         *)
(* Values are abstract tags: the iterate V_n is the integer n.  A snapshot *)
(* records the tags the solver held when save() was called.                *)
(*                                                                         *)
(* Environment facts relied on (each probed on orbax-checkpoint 0.12.4):   *)
(*   Orbax_CommitByRename         a step directory appears under its final *)
(*                                name atomically, after all items exist   *)
(*   Orbax_SnapshotAtCall         the state handed to save() is copied     *)
(*                                before save() returns (async included)   *)
(*   Orbax_SavesSerialised        a new save first waits for the previous  *)
(*                                one to be finalised                      *)
(*   Orbax_SkipSaveIfStepNotNewer save(step) is silently skipped when the  *)
(*                                manager already knows a step >= step     *)
(*   Orbax_GCKeepsNewest          retention deletes only the oldest steps  *)
(***************************************************************************)
EXTENDS Integers, Sequences, FiniteSets, TLC

CONSTANTS Freqs,       \* set of checkpoint_frequency values (0 = disabled)
          Keeps,       \* set of max_checkpoints values (>= 1)
          Asyncs,      \* subset of BOOLEAN: enable_async_checkpointing
          ConvAts,     \* set of: first iteration whose measure is below the threshold
          CallSeqs,    \* set of call sequences (limits) of the first process generation
          MaxGen,      \* number of process generations (crash/interrupt + restart)
          AllowExplicit, \* restarts may restore an explicit older step (into the same directory)
          Bug           \* "none", or one seeded design fault (anti-vacuity: each must violate an invariant):
                        \*   "late_snapshot"   the writer reads the solver's LIVE state when it writes
                        \*   "early_commit"    the final name appears before the items are written
                        \*   "gc_newest"       retention may delete the newest step
                        \*   "label_per_call"  periodic saves are labelled with the per-call sweep counter
                        \*   "no_final_save"   the save after the loop is omitted

VARIABLES c,           \* configuration of this behaviour, fixed in Init
          gen, s, w, known, disk, cfgfile, due, committed, restoredFrom, outcome, ends
vars == <<c, gen, s, w, known, disk, cfgfile, due, committed, restoredFrom, outcome, ends>>

Freq == c.freq
MaxKeep == c.keep
Async == c.async
ConvAt == c.convAt
FirstCalls == c.calls
Calls1 == {<<1>>, <<2>>, <<3>>, <<4>>, <<5>>, <<7>>}
Calls2 == {<<2, 1>>, <<1, 3>>, <<3, 4>>, <<2, 2, 3>>, <<9>>}

(* ---- helpers ------------------------------------------------------------*)
SetMax(S) == CHOOSE x \in S : \A y \in S : y <= x
Largest(k, S) == {x \in S : Cardinality({y \in S : y > x}) < k}
Finals == {e.step : e \in {d \in disk : d.status = "final"}}
NamedFinal == {e.step : e \in {d \in disk : d.status \in {"final", "deleting"}}}   \* what a directory scan sees
Entry(step) == CHOOSE e \in disk : e.step = step /\ e.status # "tmp"

FreshSolver(calls) ==
  [pc |-> "idle", calls |-> calls, ci |-> 0, rem |-> 0, iter |-> 0, vtag |-> 0, ptag |-> -1,
   conv |-> FALSE, nconv |-> 0]
IdleWriter == [phase |-> "idle", step |-> 0, snap |-> <<>>, del |-> {}]

Init ==
  /\ c \in [freq : Freqs, keep : Keeps, async : Asyncs, convAt : ConvAts, calls : CallSeqs]
  /\ ends = {}
  /\ gen = 1
  /\ s = FreshSolver(FirstCalls)
  /\ w = IdleWriter
  /\ known = {}
  /\ disk = {}
  /\ cfgfile = (Freq > 0)           \* configuration written when checkpointing is set up
  /\ due = {} /\ committed = {} /\ restoredFrom = -1 /\ outcome = "none"

(* ---- solver thread ----------------------------------------------------------*)
Call ==
  /\ s.pc = "idle" /\ s.ci < Len(s.calls)
  /\ s' = [s EXCEPT !.ci = s.ci + 1, !.rem = s.calls[s.ci + 1], !.pc = "top", !.conv = FALSE]
  /\ UNCHANGED <<c, ends, gen, w, known, disk, cfgfile, due, committed, restoredFrom, outcome>>

Sweep ==
  /\ s.pc = "top" /\ s.rem > 0
  /\ s' = [s EXCEPT !.iter = s.iter + 1, !.vtag = s.vtag + 1, !.rem = s.rem - 1, !.pc = "swept"]
  /\ UNCHANGED <<c, ends, gen, w, known, disk, cfgfile, due, committed, restoredFrom, outcome>>

Test ==
  /\ s.pc = "swept"
  /\ s' = IF s.iter >= ConvAt THEN [s EXCEPT !.conv = TRUE, !.nconv = s.nconv + 1, !.pc = "fsave"]
          ELSE IF Freq > 0 /\ s.iter % Freq = 0 THEN [s EXCEPT !.pc = "psave"]
          ELSE [s EXCEPT !.pc = "top"]
  /\ UNCHANGED <<c, ends, gen, w, known, disk, cfgfile, due, committed, restoredFrom, outcome>>

LoopExit ==
  /\ s.pc = "top" /\ s.rem = 0
  /\ s' = [s EXCEPT !.pc = "fsave"]
  /\ UNCHANGED <<c, ends, gen, w, known, disk, cfgfile, due, committed, restoredFrom, outcome>>

Snapshot == [iter |-> s.iter, vtag |-> s.vtag, ptag |-> s.ptag]
SaveLabel == IF Bug = "label_per_call" THEN s.calls[s.ci] - s.rem ELSE s.iter   \* sweeps done in this call

(* save(step = iteration): Orbax_SavesSerialised (enabled only when the writer is idle),      *)
(* Orbax_SkipSaveIfStepNotNewer, Orbax_SnapshotAtCall                                          *)
SyncPc(to) == IF to = "top" THEN "sync_top" ELSE "sync_extract"
SaveCall(from, to) ==
  /\ s.pc = from /\ Freq > 0 /\ w.phase = "idle" /\ ~(from = "fsave" /\ Bug = "no_final_save")
  /\ due' = due \cup {s.iter}
  /\ ends' = IF from = "fsave" THEN ends \cup {s.iter} ELSE ends
  /\ IF \E k \in known : k >= s.iter
     THEN /\ UNCHANGED <<w, known>>                    \* Orbax_SkipSaveIfStepNotNewer
          /\ s' = [s EXCEPT !.pc = to]
     ELSE /\ w' = [phase |-> "queued", step |-> IF from = "psave" THEN SaveLabel ELSE s.iter, snap |-> Snapshot, del |-> {}]
          /\ known' = known \cup {IF from = "psave" THEN SaveLabel ELSE s.iter}
          /\ s' = [s EXCEPT !.pc = IF Async THEN to ELSE SyncPc(to)]
  /\ UNCHANGED <<c, gen, disk, cfgfile, committed, restoredFrom, outcome>>

SyncDone(to) ==        \* synchronous mode: save() returns when the writer is done
  /\ s.pc = SyncPc(to) /\ w.phase = "idle"
  /\ s' = [s EXCEPT !.pc = to]
  /\ UNCHANGED <<c, ends, gen, w, known, disk, cfgfile, due, committed, restoredFrom, outcome>>

NoSave ==              \* checkpointing disabled: the final save is a no-op
  /\ s.pc = "fsave" /\ (Freq = 0 \/ Bug = "no_final_save")
  /\ s' = [s EXCEPT !.pc = "extract"]
  /\ UNCHANGED <<c, ends, gen, w, known, disk, cfgfile, due, committed, restoredFrom, outcome>>

Return ==              \* policy extracted from the current values; state returned
  /\ s.pc = "extract"
  /\ s' = [s EXCEPT !.ptag = s.vtag, !.pc = "idle"]
  /\ UNCHANGED <<c, ends, gen, w, known, disk, cfgfile, due, committed, restoredFrom, outcome>>

(* ---- writer thread (Orbax) -------------------------------------------------------*)
MkTmp ==
  /\ w.phase = "queued"
  /\ disk' = {e \in disk : ~(e.step = w.step /\ e.status = "tmp")}
                \cup {[step |-> w.step, status |-> IF Bug = "early_commit" THEN "final" ELSE "tmp",
                       snap |-> IF Bug = "early_commit" THEN [iter |-> -1, vtag |-> -1, ptag |-> -1] ELSE w.snap]}
  /\ w' = [w EXCEPT !.phase = "tmp"]
  /\ UNCHANGED <<c, ends, gen, s, known, cfgfile, due, committed, restoredFrom, outcome>>

WriteItems ==
  /\ w.phase = "tmp"
  /\ w' = [w EXCEPT !.phase = "written",
                    !.snap = IF Bug = "late_snapshot" /\ s.pc # "dead" THEN Snapshot ELSE @]
  /\ UNCHANGED <<c, ends, gen, s, known, disk, cfgfile, due, committed, restoredFrom, outcome>>

Commit ==              \* Orbax_CommitByRename
  /\ w.phase = "written"
  /\ disk' = {e \in disk : ~(e.step = w.step /\ e.status = "tmp")}
                \cup {[step |-> w.step, status |-> "final", snap |-> w.snap]}
  /\ committed' = committed \cup {w.step}
  /\ w' = [w EXCEPT !.phase = "gc",
                    !.del = IF Bug = "gc_newest"
                            THEN {SetMax(NamedFinal \cup {w.step})}
                            ELSE (NamedFinal \cup {w.step}) \ Largest(MaxKeep, NamedFinal \cup {w.step})]
  /\ UNCHANGED <<c, ends, gen, s, known, cfgfile, due, restoredFrom, outcome>>

DeleteBegin ==         \* Orbax_GCKeepsNewest: directory removal is not atomic
  /\ w.phase = "gc"
  /\ \E st \in w.del :
        /\ \E e \in disk : e.step = st /\ e.status = "final"
        /\ disk' = {IF e.step = st /\ e.status = "final" THEN [e EXCEPT !.status = "deleting"] ELSE e : e \in disk}
        /\ UNCHANGED w
  /\ UNCHANGED <<c, ends, gen, s, known, cfgfile, due, committed, restoredFrom, outcome>>

DeleteEnd ==
  /\ w.phase = "gc"
  /\ \E e \in disk :
        /\ e.status = "deleting" /\ e.step \in w.del       \* incl. directories half-deleted before a crash
        /\ disk' = disk \ {e}
        /\ w' = [w EXCEPT !.del = @ \ {e.step}]
        /\ known' = known \ {e.step}
  /\ UNCHANGED <<c, ends, gen, s, cfgfile, due, committed, restoredFrom, outcome>>

WriterDone ==
  /\ w.phase = "gc" /\ w.del = {}
  /\ w' = IdleWriter
  /\ UNCHANGED <<c, ends, gen, s, known, disk, cfgfile, due, committed, restoredFrom, outcome>>

(* ---- crash / interruption and restart -----------------------------------------------*)
Alive == s.pc # "dead"

Crash ==               \* SIGKILL at any moment: both threads die, the directory persists
  /\ Alive /\ gen < MaxGen /\ Freq > 0
  /\ s' = [s EXCEPT !.pc = "dead"]
  /\ w' = IdleWriter
  /\ known' = {}
  /\ UNCHANGED <<c, ends, gen, disk, cfgfile, due, committed, restoredFrom, outcome>>

Continuations ==                    \* the restarted process runs to convergence (or, with explicit
  IF AllowExplicit THEN {<<1>>, <<ConvAt + 2>>} ELSE {<<ConvAt + 2>>}   \* restores, also a single step)

(* a fresh process: restore(latest) - or an explicit older step - then continue *)
Restart ==
  /\ s.pc = "dead"
  /\ gen' = gen + 1
  /\ w' = IdleWriter
  /\ IF NamedFinal = {}
     THEN \* ValueError("No checkpoints found"): clean failure; the run starts again from scratch
          /\ outcome' = "clean_failure"
          /\ \E cont \in Continuations : s' = FreshSolver(cont)
          /\ known' = {} /\ restoredFrom' = -1 /\ due' = {}
     ELSE \E st \in (IF AllowExplicit THEN Finals \cup {SetMax(NamedFinal)} ELSE {SetMax(NamedFinal)}) :
          /\ outcome' = IF Entry(st).status = "final" THEN "ok" ELSE "torn"
          /\ \E cont \in Continuations :
               s' = [FreshSolver(cont) EXCEPT !.iter = Entry(st).snap.iter,
                                              !.vtag = Entry(st).snap.vtag,
                                              !.ptag = Entry(st).snap.ptag]
          /\ known' = NamedFinal
          /\ restoredFrom' = st
          /\ due' = Finals
  /\ UNCHANGED <<c, ends, disk, cfgfile, committed>>

(* a clean interruption: the process simply ends after solve() returned (C09) *)
Interrupt ==
  /\ s.pc = "idle" /\ s.ci = Len(s.calls) /\ ~s.conv /\ w.phase = "idle" /\ gen < MaxGen /\ Freq > 0
  /\ s' = [s EXCEPT !.pc = "dead"]
  /\ known' = {}
  /\ UNCHANGED <<c, ends, gen, w, disk, cfgfile, due, committed, restoredFrom, outcome>>

Next ==
  \/ Call \/ Sweep \/ Test \/ LoopExit
  \/ SaveCall("psave", "top") \/ SaveCall("fsave", "extract")
  \/ SyncDone("top") \/ SyncDone("extract") \/ NoSave \/ Return
  \/ MkTmp \/ WriteItems \/ Commit \/ DeleteBegin \/ DeleteEnd \/ WriterDone
  \/ Crash \/ Restart \/ Interrupt

Spec == Init /\ [][Next]_vars
FairSpec == Spec /\ WF_vars(MkTmp) /\ WF_vars(WriteItems) /\ WF_vars(Commit)
                 /\ WF_vars(DeleteBegin) /\ WF_vars(DeleteEnd) /\ WF_vars(WriterDone)

(* ---- invariants --------------------------------------------------------------------*)
(* C11: a committed step is never torn or mislabelled *)
CommittedUntorn ==
  \A e \in disk : e.status = "final" => e.snap.iter = e.step /\ e.snap.vtag = e.step

(* C11: the step a default restore would pick is never a half-deleted directory *)
LatestNeverDeleting ==
  NamedFinal # {} => \E e \in disk : e.step = SetMax(NamedFinal) /\ e.status = "final"

(* C11: restore outcome is sound: ok with the labelled state, or a clean failure *)
RestoreSound ==
  /\ outcome # "torn"
  /\ (restoredFrom >= 0 /\ s.pc = "idle" /\ s.ci = 0) => s.iter = restoredFrom /\ s.vtag = restoredFrom

(* C11: durability - once a save has been committed, a default restore never goes further back,  *)
(* unless an explicit older step was restored into the same directory                            *)
Durable ==
  (committed # {} /\ ~AllowExplicit) => (NamedFinal # {} /\ SetMax(NamedFinal) >= SetMax(committed))

(* C09 / C11: whatever the interruptions, the run ends where the uninterrupted run ends *)
(* named deviation ResumeOfConvergedRunSweepsOnceMore: a solve() call on a solver restored from   *)
(* the checkpoint of the converged iteration performs one further sweep                           *)
ResumeEquivalence ==
  (s.pc = "idle" /\ s.ci = Len(s.calls) /\ s.conv /\ s.nconv = 1 /\ ~AllowExplicit) =>
     /\ s.iter = ConvAt \/ (restoredFrom >= ConvAt /\ s.iter = restoredFrom + 1)
     /\ s.vtag = s.iter /\ s.ptag = s.vtag

(* the solver's own variables never carry anything but the iterate its counter names *)
CountIsTag == Alive => s.vtag = s.iter

(* C12 at quiescence: retained steps are exactly the MaxKeep most recent save points *)
Quiescent == s.pc = "idle" /\ s.ci = Len(s.calls) /\ s.ci > 0 /\ w.phase = "idle"
CadenceAndRetention ==
  (Quiescent /\ Freq > 0 /\ ~AllowExplicit) =>
     /\ Finals = Largest(MaxKeep, due)
     /\ \A e \in disk : e.status = "final" \/ (e.status = "tmp" /\ gen > 1)   \* leftovers only after a crash
     /\ \A st \in Finals : st % Freq = 0 \/ st \in ends
LastIterationSaved ==
  (Quiescent /\ Freq > 0) => s.iter \in Finals
(* known finding behind C12: after restoring an older explicit step into the same directory,    *)
(* saves whose step is not newer than the newest existing step are skipped                      *)
KF_RestoredOlder == restoredFrom >= 0 /\ \E k \in known : k > restoredFrom
LastIterationSaved_KF == LastIterationSaved \/ KF_RestoredOlder
NothingWrittenWhenDisabled == Freq = 0 => disk = {} /\ ~cfgfile

(* ---- liveness (checked under FairSpec, no crashes: MaxGen = 1) ----------------------------*)
EverySaveFinalised == (w.phase = "queued") ~> (w.phase = "idle")
=============================================================================
