SPECIFICATION Spec
