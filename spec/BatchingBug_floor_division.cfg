SPECIFICATION Spec
CONSTANTS
  Bug = "floor_division"
  MaxN = 200
  MaxD = 8
  ExtraB = 3
  BigBs = {64, 1024}
INVARIANT InvLayout
INVARIANT InvPrepared
INVARIANT InvUnbatched
