--------------------------- MODULE ConfigContract ---------------------------
(***************************************************************************)
(* The configuration contract (C20).  Parameter values are abstracted to   *)
(* LEVELS on and around every documented domain boundary; the harness maps *)
(* levels to concrete values (gamma: neg=-0.1 zero=0 mid=0.5 one=1         *)
(* above=1.1; epsilon: neg=-1 zero=0 tiny=1e-12 small=1e-3 half=0.5 two=2  *)
(* twenty=20 twohundred=200 million=1e6; nan = float("nan"), which lies in *)
(* no documented interval; integers are themselves).                       *)
(*                                                                         *)
(* Expected(kind, c): "ok" or "reject" per the documented domains.         *)
(* The contract: every route (keyword arguments with a problem instance,   *)
(* configuration object alone, reload of the saved configuration file)     *)
(* gives the same verdict; an accepted configuration constructs, solve()   *)
(* completes and returns float64 values (double precision is requested by  *)
(* default) whatever the creation order of problem and solver; a rejected  *)
(* one raises ValueError or TypeError at construction.                     *)
(***************************************************************************)
EXTENDS Integers, Sequences, FiniteSets, TLC

Kinds == {"VI", "PI", "RVI", "PVI", "SAVI"}
Routes == {"kwargs", "config", "yaml", "reuse"}   \* reuse: one configuration object edited in place between two solvers
GammaLevels == {"neg", "zero", "mid", "one", "above", "int_zero", "int_one", "nan"}   \* int_*: passed as Python ints
EpsLevels == {"neg", "zero", "tiny", "small", "half", "two", "twenty", "twohundred", "million", "int_one", "int_hundred", "nan"}
TestLevels == {"span", "max_diff", "bogus"}
IssueLevels == {"fifo", "lifo", "FIFO", "random"}
PLevels == {"neg", "zero", "tenth", "mid", "one", "above", "nan"}   \* tenth = 0.1: not representable exactly in binary

GammaInUnit(g) == g \in {"zero", "mid", "one", "int_zero", "int_one"}
GammaIsOne(g) == g \in {"one", "int_one"}
EpsPositive(e) == e \notin {"neg", "zero", "nan"}      \* not-a-number is in no documented domain
PInUnit(p) == p \in {"zero", "tenth", "mid", "one"}

(* documented domains *)
SolverOK(kind, c) ==
  /\ IF kind = "RVI" THEN GammaIsOne(c.gamma) ELSE GammaInUnit(c.gamma)
  /\ EpsPositive(c.eps)
  /\ c.mbs >= 1
  /\ c.freq >= 0 /\ c.keep >= 0
  /\ c.verbose \in 0..4
  /\ (kind \in {"VI", "PI", "SAVI"} => c.test \in {"span", "max_diff"})
  /\ (kind = "PI" => c.evaliter >= 1)
  /\ (kind = "PVI" => c.period >= 1 /\ (GammaIsOne(c.gamma) => c.period >= 2))

ProblemOK(c) ==
  CASE c.problem = "forest" -> c.S >= 1 /\ PInUnit(c.p)
    [] c.problem = "demoor" -> c.issue \in {"fifo", "lifo"} /\ c.m >= 1 /\ c.L >= 1 /\ c.Q >= 1
    [] OTHER -> TRUE

Expected(kind, c) == IF SolverOK(kind, c) /\ ProblemOK(c) THEN "ok" ELSE "reject"

(* ---- baseline and the boundary grid (one-at-a-time and selected pairs) ------*)
Base(kind) ==
  [problem |-> "forest", S |-> 4, p |-> "mid", issue |-> "fifo", m |-> 2, L |-> 1, Q |-> 2,
   gamma |-> IF kind = "RVI" THEN "one" ELSE "mid", eps |-> "small", mbs |-> 64, freq |-> 0, keep |-> 1,
   verbose |-> 0, test |-> "span", evaliter |-> 5, period |-> 2]

OneAtATime(kind) ==
  LET b == Base(kind) IN
    {[b EXCEPT !.gamma = g] : g \in GammaLevels}
    \cup {[b EXCEPT !.eps = e] : e \in EpsLevels}
    \cup {[b EXCEPT !.mbs = x] : x \in {-1, 0, 1, 3}}
    \cup {[b EXCEPT !.freq = x] : x \in {-1, 0, 1}}
    \cup {[b EXCEPT !.keep = x] : x \in {-1, 0, 1, 2}}
    \cup {[b EXCEPT !.verbose = x] : x \in {-1, 0, 1, 4, 5}}
    \cup {[b EXCEPT !.test = x] : x \in TestLevels}
    \cup {[b EXCEPT !.evaliter = x] : x \in {-1, 0, 1}}
    \cup {[b EXCEPT !.period = x] : x \in {-1, 0, 1, 2, 3}}
    \cup {[b EXCEPT !.S = x] : x \in {-1, 0, 1, 2}}
    \cup {[b EXCEPT !.p = x] : x \in PLevels}
    \cup {[b EXCEPT !.problem = "demoor", !.issue = x] : x \in IssueLevels}
    \cup {[b EXCEPT !.problem = "demoor", !.m = x] : x \in {0, 1}}

Pairs(kind) ==
  LET b == Base(kind) IN
    {[b EXCEPT !.gamma = g, !.eps = e] : g \in {"zero", "mid", "one"}, e \in {"tiny", "half", "twenty", "twohundred", "million"}}
    \cup {[b EXCEPT !.gamma = g, !.period = x] : g \in {"mid", "one"}, x \in {1, 2}}
    \cup {[b EXCEPT !.gamma = g, !.test = t] : g \in {"zero", "one"}, t \in {"span", "max_diff"}}
    \* checkpointing switched on together with the boundary values of the retention limit
    \cup {[b EXCEPT !.freq = f, !.keep = k] : f \in {1, 2}, k \in {-1, 0, 1}}

Grid(kind) == OneAtATime(kind) \cup Pairs(kind)

(* ---- the contract as a state machine ------------------------------------------*)
VARIABLES kind, route, c, order, phase, outcome, dtype
vars == <<kind, route, c, order, phase, outcome, dtype>>

Init == /\ kind \in Kinds /\ route \in Routes /\ c \in Grid(kind)
        /\ order \in {"solver_first", "problem_first"}
        /\ phase = "given" /\ outcome = "none" /\ dtype = "none"

Construct ==
  /\ phase = "given"
  /\ outcome' = Expected(kind, c)
  /\ phase' = IF Expected(kind, c) = "ok" THEN "constructed" ELSE "rejected"
  /\ UNCHANGED <<kind, route, c, order, dtype>>

Solve ==
  /\ phase = "constructed"
  /\ phase' = "solved" /\ dtype' = "float64"
  /\ UNCHANGED <<kind, route, c, order, outcome>>

Next == Construct \/ Solve
Spec == Init /\ [][Next]_vars

RejectedNeverSolves == phase = "solved" => Expected(kind, c) = "ok"
Float64WhenRequested == phase = "solved" => dtype = "float64"
BaselineValid == Expected(kind, Base(kind)) = "ok"
(* every documented boundary is exercised from both sides *)
GridCoversBothVerdicts ==
  \A k \in Kinds : (\E x \in Grid(k) : Expected(k, x) = "ok") /\ (\E x \in Grid(k) : Expected(k, x) = "reject")
=============================================================================
