SPECIFICATION Spec
CONSTANTS
  MaxDim = 3
  Lo <- NegOne
  Hi = 2
INVARIANT InvSpace
INVARIANT InvNoDup
INVARIANT InvAllIn
INVARIANT InvIndex
INVARIANT InvInverse
INVARIANT InvSampledAgrees
