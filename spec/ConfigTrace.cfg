SPECIFICATION Spec
