SPECIFICATION Spec
CONSTANTS
  NDirs = 3
  MaxIter = 3
  Keep = 2
  MaxRuns = 3
  Bug = "default_dir_adopts_previous"
INVARIANT RestoreReadsSource
INVARIANT LabelIsIteration
INVARIANT AtMostKeep
INVARIANT LastIterationSaved
INVARIANT DefaultDirIsOwn
PROPERTY SourceUntouched
