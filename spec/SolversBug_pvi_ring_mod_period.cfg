SPECIFICATION Spec
CONSTANTS
  Kind = "PVI"
  NS = 3
  NA = 2
  NE = 1
  PDs = {1}
  Gammas <- GammaPVI
  RewSet <- Rew3
  V0Set <- V0a
  EpsSet <- EpsA
  Tests = {"span"}
  Periods = {1, 2, 3, 4}
  NumGadgets = 3
  MaxScale = 65536
  Bug = "pvi_ring_mod_period"
  MaxIter = 12
INVARIANT WellFormedInv
INVARIANT RingEqualsDocumented
INVARIANT PVIIteratesArePlainVI
INVARIANT ConvergedMeansBelow
