--------------------------- MODULE CheckpointTrace ---------------------------
(***************************************************************************)
(* Trace validation for checkpointing scenarios (C09, C10, C11, C12).      *)
(*                                                                         *)
(* A trace is the concatenation, over process generations, of what the     *)
(* hooks recorded from real processes (sweeps, save calls/returns, solve   *)
(* begin/end, restores) and of what the driver observed (directory         *)
(* listings, restore outcomes), ordered by generation and per-process      *)
(* sequence number only.  Arrays are projected to TAGS by the harness:     *)
(* tag n = bitwise equal to the n-th iterate of the uninterrupted          *)
(* reference run, -1 = equal to no iterate ("Bad"), -2 = absent (None).    *)
(*                                                                         *)
(* The specification keeps the abstract state of module Checkpoint that    *)
(* is observable (iteration counter, save points due, steps known to be    *)
(* on disk per directory, last save known to be durable) and evaluates     *)
(* the layer-P predicates of the four properties at every event.           *)
(***************************************************************************)
EXTENDS Integers, Sequences, FiniteSets, TLC, Json, IOUtils

Traces == JsonDeserialize(IOEnv.TRACE_FILE)

VARIABLES tid, i,
          iter,        \* iteration the live solver is at (-1: no live solver)
          incall,      \* inside solve()
          due,         \* per directory (1 = original, 2 = new): steps at which save() was called
          onDisk,      \* per directory: final steps seen by the last listing
          durable,     \* step of the last save known to be committed (0 = none)
          lastCall,    \* step of the last save_call of this generation (0 = none)
          prevCall,    \* step of the save_call before that
          dir,         \* directory later saves go to (1 or 2)
          freq, keep, isasync,   \* cadence parameters currently in effect
          crashed,     \* the previous generation was killed
          expectSave,  \* a periodic save is due before the next sweep
          restoredOlder, \* an older explicit step was restored into the same directory
          rfrom,       \* iteration the live solver was restored from (-1: built fresh)
          savedp,      \* set of <<step, digest of the policy field>> handed to save() so far
          ulabels,     \* set of <<label, iteration>>: saves the USER issued through save(label) with a label of their own
          verdict
vars == <<tid, i, iter, incall, due, onDisk, durable, lastCall, prevCall, dir, freq, keep, isasync,
          crashed, expectSave, restoredOlder, rfrom, savedp, ulabels, verdict>>

T  == Traces[tid]
Ev == T.ev[i]
ToSet(seq) == {seq[k] : k \in 1..Len(seq)}
SetMax(S) == CHOOSE x \in S : \A y \in S : y <= x
Largest(k, S) == {x \in S : Cardinality({y \in S : y > x}) < k}
Bad == -1

Init ==
  /\ tid \in 1..Len(Traces)
  /\ i = 1 /\ iter = -1 /\ incall = FALSE
  /\ due = <<{}, {}>> /\ onDisk = <<{}, {}>>
  /\ durable = 0 /\ lastCall = 0 /\ prevCall = 0 /\ dir = 1
  /\ freq = Traces[tid].freq /\ keep = Traces[tid].keep /\ isasync = Traces[tid].isasync
  /\ crashed = FALSE /\ expectSave = FALSE /\ restoredOlder = FALSE /\ rfrom = -1 /\ savedp = {} /\ ulabels = {}
  /\ verdict = "running"

Reject(prop, clause) ==
  /\ verdict' = "rejected"
  /\ PrintT(<<"REJECT", tid, i, prop, clause>>)
  /\ UNCHANGED <<tid, i, iter, incall, due, onDisk, durable, lastCall, prevCall, dir, freq, keep,
                 isasync, crashed, expectSave, restoredOlder, rfrom, savedp, ulabels>>

Running == verdict = "running" /\ i <= Len(T.ev)
Step == i' = i + 1 /\ UNCHANGED <<tid, verdict>>

(* all saved fields of the event carry the tag `n` (fields a solver kind does not have are -3) *)
FieldsAre(n) ==
  /\ Ev.vtag = n
  /\ Ev.gtag \in {n, -3}
  /\ Ev.htag \in {n, -3}
  /\ Ev.itag = n

New ==
  /\ Running /\ Ev.e = "new"
  /\ IF Ev.iter # 0 \/ Ev.vtag # 0 THEN Reject("C09", "new: a fresh solver does not hold the initial values")
     ELSE /\ iter' = 0 /\ incall' = FALSE /\ lastCall' = 0 /\ prevCall' = 0 /\ expectSave' = FALSE
          /\ dir' = Ev.dir                     \* the directory this solver saves to (as the solver itself reports it)
          /\ durable' = IF Ev.dir = dir THEN durable ELSE 0
          /\ Step
          /\ UNCHANGED <<due, onDisk, freq, keep, isasync, crashed, restoredOlder, rfrom, savedp, ulabels>>

Begin ==
  /\ Running /\ Ev.e = "begin"
  /\ IF iter = -1 \/ incall THEN Reject("C09", "begin: no live solver / nested call")
     ELSE IF Ev.iter # iter THEN Reject("C09", "begin: iteration counter changed outside solve()")
     ELSE /\ incall' = TRUE /\ expectSave' = FALSE /\ Step
          /\ UNCHANGED <<iter, due, onDisk, durable, lastCall, prevCall, dir, freq, keep, isasync, crashed, restoredOlder, rfrom, savedp, ulabels>>

(* C09: enabling checkpointing never changes a computed result - every sweep of every          *)
(* generation produces exactly the reference iterate its counter names                          *)
Sweep ==
  /\ Running /\ Ev.e = "sweep"
  /\ IF ~incall THEN Reject("C09", "sweep: outside solve()")
     ELSE IF expectSave THEN Reject("C12", "cadence: no save at a multiple of checkpoint_frequency")
     ELSE IF Ev.iter # iter + 1 THEN Reject("C09", "sweep: iteration counter did not advance by one")
     ELSE IF Ev.vtag # Ev.iter \/ Ev.gtag \notin {Ev.iter, -3} \/ Ev.htag \notin {Ev.iter, -3}
       THEN Reject("C09", "sweep: state differs from the uninterrupted run at the same iteration")
     \* same trajectory, same stopping point: up to the reference's convergence iteration a sweep reports
     \* convergence exactly when the uninterrupted run did (beyond it - a solve() call on an already
     \* converged solver sweeps once more - only the trajectory is compared)
     ELSE IF T.refconv > 0 /\ Ev.convknown /\ Ev.iter < T.refconv /\ Ev.conv
       THEN Reject("C09", "sweep: convergence reported earlier than in the uninterrupted run")
     ELSE IF T.refconv > 0 /\ Ev.convknown /\ Ev.iter = T.refconv /\ ~Ev.conv
       THEN Reject("C09", "sweep: no convergence at the iteration where the uninterrupted run converged")
     ELSE /\ iter' = iter + 1
          /\ expectSave' = (freq > 0 /\ ~Ev.conv /\ (iter + 1) % freq = 0)
          /\ Step
          /\ UNCHANGED <<incall, due, onDisk, durable, lastCall, prevCall, dir, freq, keep, isasync, crashed, restoredOlder, rfrom, savedp, ulabels>>

(* C11/C12: the label of a save is the iteration just completed and the state handed over is    *)
(* exactly the state of that iteration                                                          *)
SaveCall ==
  /\ Running /\ Ev.e = "save_call"
  /\ IF freq = 0 THEN Reject("C12", "save: a save was issued although checkpoint_frequency is 0")
     ELSE IF Ev.step # iter \/ Ev.iter # iter
       THEN Reject("C11", "save: the step label is not the iteration just completed")
     ELSE IF ~FieldsAre(iter)
       THEN Reject("C11", "save: the state handed to the checkpoint is not the state of the labelled iteration")
     ELSE IF ~(expectSave \/ Ev.atend)
       THEN Reject("C12", "cadence: save at an iteration that is neither a multiple of the frequency nor the end of a call")
     ELSE /\ due' = [due EXCEPT ![dir] = @ \cup {Ev.step}]
          /\ prevCall' = lastCall /\ lastCall' = Ev.step
          /\ expectSave' = FALSE
          \* the first save of a step wins (a repeated save of the same step is refused by the manager)
          /\ savedp' = IF \E x \in savedp : x[1] = Ev.step THEN savedp ELSE savedp \cup {<<Ev.step, Ev.pdig>>}
          /\ Step
          /\ UNCHANGED <<iter, incall, onDisk, durable, dir, freq, keep, isasync, crashed, restoredOlder, rfrom, ulabels>>

(* the user calls save(label) with a label of their own choosing (a milestone number): the label names the checkpoint, *)
(* the state inside is the state the solver holds - restoring it must give back THAT iteration                        *)
UserSave ==
  /\ Running /\ Ev.e = "user_save"
  /\ IF iter < 0 \/ Ev.iter # iter \/ ~FieldsAre(iter)
       THEN Reject("C11", "save: the state handed to the checkpoint is not the state the solver holds")
     ELSE /\ due' = [due EXCEPT ![dir] = @ \cup {Ev.step}]
          /\ ulabels' = ulabels \cup {<<Ev.step, iter>>}
          /\ savedp' = IF \E x \in savedp : x[1] = Ev.step THEN savedp ELSE savedp \cup {<<Ev.step, Ev.pdig>>}
          /\ Step
          /\ UNCHANGED <<iter, incall, onDisk, durable, lastCall, prevCall, dir, freq, keep, isasync, crashed, expectSave,
                         restoredOlder, rfrom>>

SaveReturn ==
  /\ Running /\ Ev.e = "save_return"
  \* synchronous: this save is committed when save() returns.  asynchronous: Orbax_SavesSerialised -
  \* the manager finalised the PREVIOUS save before it accepted this one.
  /\ durable' = IF restoredOlder THEN durable
                ELSE IF ~isasync THEN (IF Ev.step > durable THEN Ev.step ELSE durable)
                ELSE (IF prevCall > durable /\ prevCall < Ev.step THEN prevCall ELSE durable)
  /\ Step
  /\ UNCHANGED <<iter, incall, due, onDisk, lastCall, prevCall, dir, freq, keep, isasync, crashed, expectSave, restoredOlder, rfrom, savedp, ulabels>>

End ==
  /\ Running /\ Ev.e = "end"
  /\ IF ~incall THEN Reject("C09", "end: outside solve()")
     ELSE IF Ev.iter # iter \/ Ev.vtag # iter THEN Reject("C09", "end: returned state is not the state of the last sweep")
     ELSE IF freq > 0 /\ lastCall # iter THEN Reject("C12", "cadence: the last iteration of the call was not saved")
     ELSE IF Ev.final /\ Ev.iter = T.refconv /\ Ev.ptag # T.refconv
       THEN Reject("C09", "end: final policy differs from the uninterrupted run")
     ELSE /\ incall' = FALSE /\ expectSave' = FALSE /\ Step
          /\ UNCHANGED <<iter, due, onDisk, durable, lastCall, prevCall, dir, freq, keep, isasync, crashed, restoredOlder, rfrom, savedp, ulabels>>

Waited ==
  /\ Running /\ Ev.e = "waited"
  /\ durable' = IF lastCall > durable /\ ~restoredOlder THEN lastCall ELSE durable
  /\ Step
  /\ UNCHANGED <<iter, incall, due, onDisk, lastCall, prevCall, dir, freq, keep, isasync, crashed, expectSave, restoredOlder, rfrom, savedp, ulabels>>

(* directory listing.  quiescent listings (after wait_until_finished, no kill) are held to the  *)
(* cadence/retention rule; post-mortem listings to durability and to "nothing but save points". *)
Listing ==
  /\ Running /\ Ev.e = "listing"
  /\ LET d == Ev.dir
         fin == ToSet(Ev.fin)
         expected == Largest(keep, due[d] \cup onDisk[d])
     IN
     IF T.freq0 /\ (Ev.exists \/ fin # {}) THEN Reject("C12", "frequency 0: a checkpoint directory was created or written")
     \* the scenario's only use of the second directory is restore(..., new_checkpoint_dir=B, checkpoint_frequency=0)
     ELSE IF T.bunused /\ d = 2 /\ (Ev.exists \/ fin # {})
       THEN Reject("C12", "frequency 0: restore with a new directory and checkpoint_frequency=0 created or wrote that directory")
     ELSE IF ~(fin \subseteq (due[d] \cup onDisk[d]))
       THEN Reject("C12", "listing: a committed step that is not a save point of the run")
     ELSE IF Ev.quiescent /\ d = dir /\ freq > 0 /\ fin # expected /\ ~restoredOlder
       THEN Reject("C12", "retention: retained steps are not the max_checkpoints most recent save points")
     ELSE IF Ev.quiescent /\ d = dir /\ freq > 0 /\ iter >= 0 /\ iter \notin fin /\ ~restoredOlder
       THEN Reject("C12", "retention: the last iteration of the most recent call is not among the retained steps")
     ELSE IF Ev.quiescent /\ d = dir /\ freq > 0 /\ iter >= 0 /\ iter \notin fin /\ restoredOlder
       THEN Reject("C12", "KF: last iteration not saved after restoring an older step into the same directory")
     ELSE IF Ev.quiescent /\ d = dir /\ ~T.freq0 /\ Len(Ev.tmp) > 0 /\ ~T.hadcrash
       THEN Reject("C12", "listing: temporary directory left behind after pending writes finished")
     \* (a process killed while its solver was being constructed - before the first save - may leave the directory
     \* without the file: the file is demanded when a live solver has finished its pending writes, or a checkpoint exists)
     ELSE IF ~T.freq0 /\ d = 1 /\ ((Ev.cfg /\ ~T.fullconfig) \/ (~Ev.cfg /\ T.fullconfig /\ ((Ev.quiescent /\ iter >= 0) \/ fin # {})))
       THEN Reject("C12", "configuration file present exactly when solver and problem are reconstructible")
     ELSE IF durable > 0 /\ d = dir /\ (fin = {} \/ SetMax(fin) < durable)
       THEN Reject("C11", "durability: the latest committed step is older than a save that had completed")
     ELSE IF Ev.unchanged = FALSE
       THEN Reject("C10", "restore with a new directory altered the original directory")
     ELSE /\ onDisk' = [onDisk EXCEPT ![d] = fin]
          \* after a kill, saves that never committed are forgotten: the directory is the truth
          /\ due' = IF Ev.postmortem THEN [due EXCEPT ![d] = fin] ELSE due
          /\ Step
          /\ UNCHANGED <<iter, incall, durable, lastCall, prevCall, dir, freq, keep, isasync, crashed, expectSave, restoredOlder, rfrom, savedp, ulabels>>

(* the driver copied directory Ev.src to directory Ev.dir (a backup taken at rest): the copy holds what the   *)
(* source held; restoring from it must read IT, whatever the configuration file inside says about directories *)
Copy ==
  /\ Running /\ Ev.e = "copy"
  /\ onDisk' = [onDisk EXCEPT ![Ev.dir] = onDisk[Ev.src]]
  /\ due' = [due EXCEPT ![Ev.dir] = onDisk[Ev.src]]
  /\ Step
  /\ UNCHANGED <<iter, incall, durable, lastCall, prevCall, dir, freq, keep, isasync, crashed, expectSave, restoredOlder, rfrom, savedp, ulabels>>

Crash ==      \* the process generation ended (killed, or simply exited)
  /\ Running /\ Ev.e = "crash"
  /\ iter' = -1 /\ incall' = FALSE /\ crashed' = Ev.killed /\ lastCall' = 0 /\ prevCall' = 0
  /\ expectSave' = FALSE
  /\ Step
  /\ UNCHANGED <<due, onDisk, durable, dir, freq, keep, isasync, restoredOlder, rfrom, savedp, ulabels>>

(* C10 / C11: restore outcome.  Ev.req is the step the caller asked for, -1 when none was given (0 is a valid label) *)
RestoreOK ==
  /\ Running /\ Ev.e = "restore_ok"
  /\ LET src == onDisk[Ev.src]
         chosen == IF Ev.req >= 0 THEN Ev.req ELSE (IF src = {} THEN 0 ELSE SetMax(src))
         \* the iteration the chosen checkpoint carries: its label, unless the user labelled it
         content == IF \E x \in ulabels : x[1] = chosen THEN (CHOOSE x \in ulabels : x[1] = chosen)[2] ELSE chosen
     IN
     IF src = {} THEN Reject("C11", "restore: returned a solver although no checkpoint had been completed")
     ELSE IF ~T.fullconfig /\ Ev.route = "restore" THEN Reject("C10", "restore: succeeded without a configuration file")
     \* with a writer of the same process still in flight the latest step may have been committed after the
     \* listing was taken: then any save point at or beyond the listed maximum is the latest completed step
     ELSE IF Ev.inflight /\ Ev.req < 0 /\ ~(Ev.iter >= chosen /\ Ev.iter \in (src \cup due[Ev.src]))
       THEN Reject("C10", "restore: the restored iteration is not a completed save point at or beyond the listed latest step")
     ELSE IF ~(Ev.inflight /\ Ev.req < 0) /\ Ev.iter # content
       THEN Reject("C10", "restore: the restored iteration is not the one the requested / latest completed checkpoint carries")
     ELSE IF Ev.vtag = Bad \/ Ev.gtag = Bad \/ Ev.htag = Bad
       THEN Reject("C11", "restore: restored arrays match no iterate of the run (torn or mixed checkpoint)")
     ELSE IF ~FieldsAre(Ev.iter)
       THEN Reject("C11", "restore: restored fields are not the ones held at the iteration the checkpoint carries")
     ELSE IF Ev.hidxok = FALSE THEN Reject("C10", "restore: history index / period not restored")
     ELSE IF T.expectpolicy /\ Ev.ptag # Ev.iter
       THEN Reject("C10", "restore: stored policy not restored")
     ELSE IF Ev.cfgeq = FALSE THEN Reject("C10", "restore: rebuilt configuration differs from the original")
     ELSE IF Ev.dtypeok = FALSE THEN Reject("C10", "restore: restored values have a different dtype")
     ELSE IF Ev.route = "restore" /\ (Ev.nfreq # Ev.wantfreq \/ Ev.nkeep # Ev.wantkeep \/ Ev.nasync # Ev.wantasync \/ Ev.ndir # Ev.wantdir)
       THEN Reject("C10", "restore: overrides (directory, frequency, retention, async) did not take effect as given / later saves do not go to the directory the restored run belongs to")
     ELSE /\ iter' = Ev.iter /\ incall' = FALSE
          /\ dir' = Ev.ndir /\ freq' = Ev.nfreq /\ keep' = Ev.nkeep /\ isasync' = Ev.nasync
          /\ restoredOlder' = (Ev.ndir = Ev.src /\ Ev.iter < SetMax(src))
          /\ due' = IF Ev.ndir = 2 THEN [due EXCEPT ![2] = {}] ELSE due
          /\ lastCall' = 0 /\ prevCall' = 0 /\ expectSave' = FALSE
          /\ durable' = IF Ev.ndir = 2 THEN 0 ELSE durable
          /\ rfrom' = Ev.iter
          \* reported without stopping the trace (the rest is still judged): C10's check turns it into a verdict
          /\ (\E x \in savedp : x[1] = Ev.iter /\ x[2] # Ev.pdig /\ Ev.pdig = "none") =>
                PrintT(<<"DRIFT", tid, "C10 restore: the policy field differs from the one handed to save() at that step (saved policy dropped)">>)
          /\ (\E x \in savedp : x[1] = Ev.iter /\ x[2] # Ev.pdig /\ Ev.pdig # "none") =>
                PrintT(<<"DRIFT", tid, "C10 restore: the policy field differs from the one handed to save() at that step (another policy present)">>)
          /\ Step
          /\ UNCHANGED <<onDisk, crashed, savedp, ulabels>>

RestoreFailed ==
  /\ Running /\ Ev.e = "restore_failed"
  /\ LET src == onDisk[Ev.src] IN
     IF Ev.route = "restore" /\ ~T.fullconfig
     THEN (IF Ev.exc # "FileNotFoundError" THEN Reject("C10", "restore without a configuration file must raise FileNotFoundError")
           ELSE Step /\ iter' = -1 /\ UNCHANGED <<incall, due, onDisk, durable, lastCall, prevCall, dir, freq, keep, isasync, crashed, expectSave, restoredOlder, rfrom, savedp, ulabels>>)
     ELSE IF src = {}
     \* (a process killed while its solver was being constructed may not even have left the configuration file: then
     \* the other documented error, FileNotFoundError, is the clean failure)
     THEN (IF Ev.exc # "ValueError" /\ ~(T.hadcrash /\ Ev.exc = "FileNotFoundError")
             THEN Reject("C10", "restore with no completed checkpoint must raise ValueError")
           ELSE Step /\ iter' = -1 /\ UNCHANGED <<incall, due, onDisk, durable, lastCall, prevCall, dir, freq, keep, isasync, crashed, expectSave, restoredOlder, rfrom, savedp, ulabels>>)
     \* an explicit step that is absent, or that retention was already deleting when the process was
     \* killed (a half-deleted directory), may fail - it must never return data (see RestoreOK)
     ELSE IF Ev.req >= 0 /\ (Ev.req \notin src \/ (T.hadcrash /\ Ev.req \notin Largest(keep, src)))
     THEN Step /\ iter' = -1 /\ UNCHANGED <<incall, due, onDisk, durable, lastCall, prevCall, dir, freq, keep, isasync, crashed, expectSave, restoredOlder, rfrom, savedp, ulabels>>
     ELSE Reject("C11", "restore: failed although a completed checkpoint exists")

SolveFailed ==
  /\ Running /\ Ev.e = "solve_failed"
  /\ Reject("C09", "solve() raised an exception")

Accept ==
  /\ verdict = "running" /\ i = Len(T.ev) + 1
  /\ verdict' = "accepted"
  /\ PrintT(<<"ACCEPT", tid>>)
  /\ UNCHANGED <<tid, i, iter, incall, due, onDisk, durable, lastCall, prevCall, dir, freq, keep, isasync,
                 crashed, expectSave, restoredOlder, rfrom, savedp, ulabels>>

Next == New \/ Begin \/ Sweep \/ SaveCall \/ UserSave \/ SaveReturn \/ End \/ Waited \/ Listing \/ Copy \/ Crash
        \/ RestoreOK \/ RestoreFailed \/ SolveFailed \/ Accept
Spec == Init /\ [][Next]_vars
=============================================================================
