---------------------------- MODULE InventoryOps ----------------------------
(***************************************************************************)
(* The documented dynamics of the four shipped problems as scalar integer  *)
(* models (C14, C15), written from the class docstrings - not from the     *)
(* code.  Stock vectors list the NEWEST units on the left and the OLDEST   *)
(* on the right (index m = about to expire).                               *)
(*                                                                         *)
(* P is a record of parameters:                                            *)
(*   kind in {"forest", "demoor", "hendrix", "mirjalili"}                  *)
(*   forest:    S                                                          *)
(*   demoor:    m (useful life), L (lead time), Q (max order), D (max      *)
(*              demand), fifo (TRUE: oldest first, FALSE: newest first)    *)
(*   hendrix:   m, Qa, Qb                                                  *)
(*   mirjalili: m, Q, D                                                    *)
(* Step(P, s, a, e) returns [next |-> state, comp |-> cost/revenue         *)
(* components (integers), issued, expired, received |-> unit counts].      *)
(***************************************************************************)
EXTENDS Integers, Sequences, FiniteSets, RangeSpaceOps

Min2(a, b) == IF a < b THEN a ELSE b
Max2(a, b) == IF a > b THEN a ELSE b

RECURSIVE SumSeq(_)
SumSeq(s) == IF Len(s) = 0 THEN 0 ELSE Head(s) + SumSeq(Tail(s))
SubSeqSafe(s, a, b) == IF a > b THEN <<>> ELSE SubSeq(s, a, b)
Const(n, v) == [i \in 1..n |-> v]

(* ---- issuing --------------------------------------------------------------*)
(* oldest first: meet demand d from index Len(stock) down to 1 *)
RECURSIVE IssueOldestFirst(_, _)
IssueOldestFirst(stock, d) ==
  IF Len(stock) = 0 THEN <<>>
  ELSE LET n == Len(stock)
           take == Min2(stock[n], d)
       IN Append(IssueOldestFirst(SubSeqSafe(stock, 1, n - 1), d - take), stock[n] - take)

(* newest first: from index 1 up *)
RECURSIVE IssueNewestFirst(_, _)
IssueNewestFirst(stock, d) ==
  IF Len(stock) = 0 THEN <<>>
  ELSE LET take == Min2(stock[1], d)
       IN <<stock[1] - take>> \o IssueNewestFirst(Tail(stock), d - take)

(* ---- spaces (documented sizes and order: row-major integer boxes) -----------*)
StateMins(P) ==
  CASE P.kind = "forest"    -> <<0>>
    [] P.kind = "demoor"    -> Const(P.L - 1 + P.m, 0)
    [] P.kind = "hendrix"   -> Const(2 * P.m, 0)
    [] P.kind = "mirjalili" -> Const(P.m, 0)
StateMaxs(P) ==
  CASE P.kind = "forest"    -> <<P.S - 1>>
    [] P.kind = "demoor"    -> Const(P.L - 1 + P.m, P.Q)
    [] P.kind = "hendrix"   -> Const(P.m, P.Qa) \o Const(P.m, P.Qb)
    [] P.kind = "mirjalili" -> <<6>> \o Const(P.m - 1, P.Q)
ActionMins(P) == IF P.kind = "hendrix" THEN <<0, 0>> ELSE <<0>>
ActionMaxs(P) ==
  CASE P.kind = "forest"    -> <<1>>
    [] P.kind = "demoor"    -> <<P.Q>>
    [] P.kind = "hendrix"   -> <<P.Qa, P.Qb>>
    [] P.kind = "mirjalili" -> <<P.Q>>

NStates(P) == Size(StateMins(P), StateMaxs(P))
NActions(P) == Size(ActionMins(P), ActionMaxs(P))
InStateSpace(P, v) == Len(v) = Len(StateMins(P)) /\ InBox(StateMins(P), StateMaxs(P), v)

(* ---- one step ---------------------------------------------------------------*)
ForestStep(P, s, a, e) ==
  LET age == s[1]
      cut == a[1] = 1
      fire == e[1] = 1
      oldest == age = P.S - 1
  IN [next |-> <<IF cut \/ fire THEN 0 ELSE Min2(age + 1, P.S - 1)>>,
      \* components: <<units of r1, units of r2, units of 1>> (reward = r1*c1 + r2*c2 + c3)
      \* Forest_WaitRewardIndependentOfFire: as in pymdptoolbox, the reward for waiting in the oldest
      \* state does not depend on the fire event; cutting the youngest state yields nothing
      comp |-> IF cut THEN (IF oldest THEN <<0, 1, 0>> ELSE IF age = 0 THEN <<0, 0, 0>> ELSE <<0, 0, 1>>)
               ELSE (IF oldest THEN <<1, 0, 0>> ELSE <<0, 0, 0>>),
      issued |-> 0, expired |-> 0, received |-> 0, opening |-> 0, closing |-> 0]

DeMoorStep(P, s, a, e) ==
  LET q == a[1]
      d == e[1]
      pipe == SubSeqSafe(s, 1, P.L - 1)                 \* orders in transit, newest first
      stock == SubSeqSafe(s, P.L, P.L - 1 + P.m)       \* newest .. oldest
      after == IF P.fifo THEN IssueOldestFirst(stock, d) ELSE IssueNewestFirst(stock, d)
      issued == SumSeq(stock) - SumSeq(after)
      expired == after[P.m]
      kept == SubSeqSafe(after, 1, P.m - 1)              \* ages by one period
      pipe2 == <<q>> \o pipe                             \* the new order joins the pipeline
      arriving == pipe2[P.L]                             \* placed L-1 periods ago
      newpipe == SubSeqSafe(pipe2, 1, P.L - 1)
  IN [next |-> newpipe \o <<arriving>> \o kept,
      \* components: <<ordered, shortage, expired, held at end of period>>
      comp |-> <<q, Max2(d - SumSeq(stock), 0), expired, SumSeq(kept)>>,
      issued |-> issued, expired |-> expired, received |-> arriving,
      opening |-> SumSeq(stock), closing |-> arriving + SumSeq(kept)]

HendrixDefined(P, s, e) ==
  /\ e[1] <= SumSeq(SubSeqSafe(s, 1, P.m))
  /\ e[2] <= SumSeq(SubSeqSafe(s, P.m + 1, 2 * P.m))

HendrixStep(P, s, a, e) ==
  LET sa == SubSeqSafe(s, 1, P.m)
      sb == SubSeqSafe(s, P.m + 1, 2 * P.m)
      aa == IssueOldestFirst(sa, e[1])
      ab == IssueOldestFirst(sb, e[2])
  IN [next |-> <<a[1]>> \o SubSeqSafe(aa, 1, P.m - 1) \o <<a[2]>> \o SubSeqSafe(ab, 1, P.m - 1),
      \* components: <<issued A, issued B, ordered A, ordered B>> (revenue minus ordering cost)
      comp |-> <<e[1], e[2], a[1], a[2]>>,
      issued |-> (SumSeq(sa) - SumSeq(aa)) + (SumSeq(sb) - SumSeq(ab)),
      expired |-> aa[P.m] + ab[P.m], received |-> a[1] + a[2],
      opening |-> SumSeq(sa) + SumSeq(sb),
      closing |-> a[1] + a[2] + SumSeq(SubSeqSafe(aa, 1, P.m - 1)) + SumSeq(SubSeqSafe(ab, 1, P.m - 1))]

MirjaliliStep(P, s, a, e) ==
  LET q == a[1]
      d == e[1]
      rec == SubSeqSafe(e, 2, P.m + 1)                   \* received by remaining life, freshest first
      held == <<0>> \o SubSeqSafe(s, 2, P.m)             \* stock carried over, no fresh units yet
      \* delivery; no age class may exceed the order limit (excess is not accepted)
      open == [i \in 1..P.m |-> Min2(held[i] + rec[i], P.Q)]
      after == IssueOldestFirst(open, d)
      expired == after[P.m]
  IN [next |-> <<(s[1] + 1) % 7>> \o SubSeqSafe(after, 1, P.m - 1),
      \* components: <<ordered, order placed (0/1), shortage, expired, held incl. expiring>>
      comp |-> <<q, IF q > 0 THEN 1 ELSE 0, Max2(d - SumSeq(open), 0), expired, SumSeq(after)>>,
      issued |-> SumSeq(open) - SumSeq(after), expired |-> expired,
      received |-> SumSeq(open) - SumSeq(held),
      opening |-> SumSeq(held), closing |-> SumSeq(SubSeqSafe(after, 1, P.m - 1))]

Step(P, s, a, e) ==
  CASE P.kind = "forest"    -> ForestStep(P, s, a, e)
    [] P.kind = "demoor"    -> DeMoorStep(P, s, a, e)
    [] P.kind = "hendrix"   -> HendrixStep(P, s, a, e)
    [] P.kind = "mirjalili" -> MirjaliliStep(P, s, a, e)

(* the triples for which the documented model defines an outcome *)
Defined(P, s, a, e) == IF P.kind = "hendrix" THEN HendrixDefined(P, s, e) ELSE TRUE

(* structural support of the event distribution (a discrete fact, independent of any numerics) *)
Support(P, s, a, e) ==
  CASE P.kind = "forest"    -> (e[1] = 1 => a[1] = 0)                        \* fire only when waiting
    [] P.kind = "demoor"    -> TRUE                                           \* every demand
    [] P.kind = "hendrix"   -> HendrixDefined(P, s, e)                        \* cannot issue more than stock
    [] P.kind = "mirjalili" -> SumSeq(SubSeqSafe(e, 2, P.m + 1)) = a[1]      \* the split sums to the order

(* unit conservation: opening stock + receipts = issued + expired + closing stock *)
Conserved(r) == r.opening + r.received = r.issued + r.expired + r.closing
=============================================================================
