SPECIFICATION Spec
CONSTANTS
  Freqs = {1, 2, 3}
  Keeps = {1, 2, 3}
  Asyncs = {TRUE, FALSE}
  ConvAts = {4, 7}
  CallSeqs <- Calls2
  MaxGen = 2
  AllowExplicit = FALSE
  Bug = "none"
INVARIANT CommittedUntorn
INVARIANT LatestNeverDeleting
INVARIANT RestoreSound
INVARIANT Durable
INVARIANT ResumeEquivalence
INVARIANT CountIsTag
INVARIANT CadenceAndRetention
INVARIANT LastIterationSaved
