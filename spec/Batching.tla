------------------------------ MODULE Batching ------------------------------
(***************************************************************************)
(* Exhaustive state machine over a bounded box of (n_states,               *)
(* max_batch_size, device count): construct the documented layout, prepare *)
(* the batches, strip the padding; the layer-P predicates of BatchingOps   *)
(* are invariants.                                                         *)
(***************************************************************************)
EXTENDS BatchingOps

CONSTANTS Bug,    \* "none" | "floor_division" (states per device rounded down): anti-vacuity
          MaxN, MaxD, ExtraB, BigBs    \* n in 1..MaxN, d in 1..MaxD, maxb in 1..n+ExtraB plus BigBs
VARIABLES phase, n, maxb, d, L, arr

vars == <<phase, n, maxb, d, L, arr>>

NoLayout == [nd |-> 0, nb |-> 0, bs |-> 0, pad |-> 0]

Init ==
  /\ phase = "new"
  /\ n \in 1..MaxN
  /\ d \in 1..MaxD
  /\ maxb \in (1..(n + ExtraB)) \cup BigBs
  /\ L = NoLayout
  /\ arr = <<>>

Construct == /\ phase = "new"
             /\ L' = IF Bug = "floor_division" /\ n >= d
                     THEN LET spd == n \div d
                              bs == IF d = 1 THEN Min(maxb, n) ELSE Min(maxb, Max(MinMultiDeviceBatch, spd))
                              nb == IF spd <= bs THEN 1 ELSE CeilDiv(spd, bs)
                          IN [nd |-> d, nb |-> nb, bs |-> bs, pad |-> d * nb * bs - n]
                     ELSE Layout(n, maxb, d)
             /\ phase' = "laid_out"
             /\ UNCHANGED <<n, maxb, d, arr>>

Prepare == /\ phase = "laid_out"
           /\ arr' = Prepared(n, L)
           /\ phase' = "prepared"
           /\ UNCHANGED <<n, maxb, d, L>>

Strip == /\ phase = "prepared"
         /\ arr' = Unbatch(n, L, arr)
         /\ phase' = "unbatched"
         /\ UNCHANGED <<n, maxb, d, L>>

Next == Construct \/ Prepare \/ Strip
Spec == Init /\ [][Next]_vars

InvLayout    == phase # "new" => LayoutOK(n, maxb, d, L)
InvPrepared  == phase = "prepared" => PreparedOK(n, L, arr)
InvUnbatched == phase = "unbatched" => UnbatchOK(n, arr)
(* every real state lands in exactly one (device, batch, position) *)
InvOnce == phase = "prepared" =>
             \A s \in 1..n : Cardinality({i \in 1..Len(arr) : arr[i] = s}) = 1
(* padding only at the end, so on any device padding never precedes a real state *)
InvPadLast == phase = "prepared" =>
             \A i \in 1..Len(arr) : \A j \in 1..Len(arr) : (arr[i] = 0 /\ j > i) => arr[j] = 0
=============================================================================
