------------------------ MODULE MC_BatchingUnbounded ------------------------
(***************************************************************************)
(* Apalache (symbolic) check of the layout arithmetic of BatchingOps for   *)
(* UNBOUNDED n_states and max_batch_size and 1..8 devices:                 *)
(*   apalache-mc check --init=Init --inv=LayoutInv --length=0              *)
(* proves  Init => LayoutInv, i.e. the documented layout satisfies layer P *)
(* of C18 for every n >= 1 and maxb >= 1 (TLC covers a bounded box only).  *)
(***************************************************************************)
EXTENDS Integers

VARIABLES
  \* @type: Int;
  n,
  \* @type: Int;
  maxb,
  \* @type: Int;
  d

CeilDivC(a, b) == (a + b - 1) \div b
Min(a, b) == IF a < b THEN a ELSE b
Max(a, b) == IF a > b THEN a ELSE b

\* states per device with a CONSTANT divisor in every branch (keeps the arithmetic linear for the solver)
Spd == IF d = 1 THEN n ELSE IF d = 2 THEN CeilDivC(n, 2) ELSE IF d = 3 THEN CeilDivC(n, 3)
       ELSE IF d = 4 THEN CeilDivC(n, 4) ELSE IF d = 5 THEN CeilDivC(n, 5) ELSE IF d = 6 THEN CeilDivC(n, 6)
       ELSE IF d = 7 THEN CeilDivC(n, 7) ELSE CeilDivC(n, 8)
Bs == IF d = 1 THEN Min(maxb, n) ELSE Min(maxb, Max(64, Spd))

VARIABLES
  \* @type: Int;
  nb          \* batches per device: chosen by Init as THE integer with (nb-1)*bs < spd <= nb*bs

Init ==
  /\ n \in Nat /\ maxb \in Nat /\ d \in 1..8 /\ nb \in Nat
  /\ n >= 1 /\ maxb >= 1
  /\ nb >= 1
  /\ IF Spd <= Bs THEN nb = 1 ELSE ((nb - 1) * Bs < Spd /\ Spd <= nb * Bs)   \* nb = ceil(spd / bs)

Next == UNCHANGED <<n, maxb, d, nb>>

Pad == d * nb * Bs - n

LayoutInv ==
  /\ 1 <= Bs /\ Bs <= maxb
  /\ Pad >= 0
  /\ d * nb * Bs = n + Pad
=============================================================================
