SPECIFICATION Spec
CONSTANTS
  NS = 2
  NA = 3
  NE = 1
  PDs = {1}
  Gammas <- GammaPI
  RewSet <- RewPI
  EpsSet <- EpsPI
  Tests = {"span", "max_diff"}
  Budgets = {1, 2, 5}
  Resets = {TRUE, FALSE}
  NumGadgets = 8
  MaxScale = 4194304
  MaxOuter = 6
  Bug = "none"
  ActVec <- VecMixed
INVARIANT EvalWithinBudget
INVARIANT StopMeansStable
INVARIANT ReturnedGreedy
INVARIANT ReturnedIterateTested
INVARIANT PINearOptimal
INVARIANT PIValuesNearPolicyValue
