SPECIFICATION Spec
INVARIANT RejectedNeverSolves
INVARIANT Float64WhenRequested
INVARIANT BaselineValid
INVARIANT GridCoversBothVerdicts
