SPECIFICATION Spec
