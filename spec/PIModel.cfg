SPECIFICATION Spec
CONSTANTS
  NS = 2
  NA = 3
  NE = 2
  PDs = {1, 2}
  Gammas <- GammaPI
  RewSet <- RewPI
  EpsSet <- EpsPI
  Tests = {"span", "max_diff"}
  Budgets = {1, 2, 5}
  Resets = {TRUE, FALSE}
  NumGadgets = 3
  MaxScale = 4194304
  MaxOuter = 6
  ActVec <- VecMixed
INVARIANT EvalWithinBudget
INVARIANT StopMeansStable
INVARIANT ReturnedGreedy
INVARIANT ReturnedIterateTested
