SPECIFICATION Spec
CONSTANTS
  NS = 2
  NA = 2
  NE = 2
  PDs = {1, 2, 4}
  Gammas <- AllGammas
  RewSet <- RewDef
  Grid <- Grid4
  Shifts <- ShiftDef
  NumGadgets = 6
INVARIANT WellFormedInv
INVARIANT Monotone
INVARIANT Contraction
INVARIANT ShiftLaw
INVARIANT GreedyIsArgmax
INVARIANT PolicyBackupBelow
