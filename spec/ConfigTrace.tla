----------------------------- MODULE ConfigTrace -----------------------------
(***************************************************************************)
(* Judges constructions recorded from the real code against                *)
(* ConfigContract: one observation = (kind, route, configuration levels,   *)
(* creation order) with the observed construction outcome, solve outcome   *)
(* and result dtype.  Observations of the same configuration by different  *)
(* routes carry the same group id and must agree.                          *)
(***************************************************************************)
EXTENDS Integers, Sequences, FiniteSets, TLC, Json, IOUtils

CC == INSTANCE ConfigContract WITH kind <- "VI", route <- "kwargs", c <- 0, order <- "", phase <- "", outcome <- "", dtype <- ""

Obs == JsonDeserialize(IOEnv.TRACE_FILE)
VARIABLES tid, verdict
vars == <<tid, verdict>>
O == Obs[tid]

Init == tid \in 1..Len(Obs) /\ verdict = "running"
Reject(clause) == verdict' = "rejected" /\ PrintT(<<"REJECT", tid, clause>>) /\ UNCHANGED tid

Judge ==
  /\ verdict = "running"
  /\ LET exp == CC!Expected(O.kind, O.c) IN
     IF exp = "reject"
     THEN (IF O.construct = "ok" THEN Reject("a value outside the documented domain was accepted at construction")
           ELSE IF O.construct \notin {"ValueError", "TypeError"}
             THEN Reject("an invalid value was rejected with an exception other than ValueError/TypeError")
           ELSE verdict' = "accepted" /\ PrintT(<<"ACCEPT", tid>>) /\ UNCHANGED tid)
     ELSE IF O.construct # "ok" THEN Reject("a valid parameter set could not be constructed by this route")
     ELSE IF O.solve # "ok" THEN Reject("solve() did not complete for a valid parameter set")
     ELSE IF O.dtype # "float64" THEN Reject("values are not float64 although double precision is requested")
     ELSE IF ~O.sameasref THEN Reject("the routes / creation orders do not behave identically (different values)")
     ELSE IF ~O.bok THEN Reject("a second solver built from the edited configuration object does not reflect the edited values")
     ELSE verdict' = "accepted" /\ PrintT(<<"ACCEPT", tid>>) /\ UNCHANGED tid

Next == Judge
Spec == Init /\ [][Next]_vars
=============================================================================
