SPECIFICATION Spec
CONSTANTS
  NDirs = 3
  MaxIter = 3
  Keep = 2
  MaxRuns = 3
  Bug = "none"
INVARIANT RestoreReadsSource
INVARIANT LabelIsIteration
INVARIANT AtMostKeep
INVARIANT LastIterationSaved
INVARIANT DefaultDirIsOwn
PROPERTY SourceUntouched
