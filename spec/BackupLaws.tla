----------------------------- MODULE BackupLaws -----------------------------
(***************************************************************************)
(* Design-level check for C02: on a family of small MDPs (gadgets) and for *)
(* EVERY pair of value vectors of a grid (not only reachable iterates) the *)
(* backup operator of TabularMDP is monotone, a gamma-contraction in the   *)
(* sup norm and shifts by gamma*c; the greedy set is the argmax set.       *)
(* Gadgets are drawn with TLC's Randomization module (seeded by -seed).    *)
(***************************************************************************)
EXTENDS TabularMDP, Randomization, TLC

CONSTANTS NS, NA, NE, PDs, Gammas, RewSet, Grid, Shifts, NumGadgets

AllGammas == {<<0, 1>>, <<1, 4>>, <<1, 2>>, <<3, 4>>, <<1, 1>>}
RewDef == {-2, 0, 1, 3}
Grid4 == {-3, 0, 1, 4}
Grid3 == {-3, 0, 4}
ShiftDef == {-2, 5}
VARIABLES m, V, W, c, phase, BV, BW, BS
vars == <<m, V, W, c, phase, BV, BW, BS>>

S == 1..NS
A == 1..NA
E == 1..NE

Rows(PD) == {r \in [E -> 0..PD] : SumTo(r, NE) = PD}

Gadgets ==
  UNION {
    UNION {
      LET nexts == RandomSubset(NumGadgets, [S -> [A -> [E -> S]]])
          rews  == RandomSubset(NumGadgets, [S -> [A -> [E -> RewSet]]])
          pks   == RandomSubset(NumGadgets, [S -> [A -> Rows(PD)]])
      IN { [ns |-> NS, na |-> NA, ne |-> NE, next |-> nx, rew |-> rw, pk |-> pk,
            PD |-> PD, GN |-> g[1], GD |-> g[2]] :
             nx \in RandomSubset(2, nexts), rw \in RandomSubset(2, rews), pk \in RandomSubset(2, pks) }
      : g \in Gammas }
    : PD \in PDs }

Init ==
  /\ m \in Gadgets
  /\ V \in [S -> Grid] /\ W \in [S -> Grid] /\ c \in Shifts
  /\ phase = "chosen" /\ BV = <<>> /\ BW = <<>> /\ BS = <<>>

Apply ==
  /\ phase = "chosen"
  /\ BV' = BackupNum(m, V)
  /\ BW' = BackupNum(m, W)
  /\ BS' = BackupNum(m, [s \in S |-> V[s] + c])
  /\ phase' = "applied"
  /\ UNCHANGED <<m, V, W, c>>

Next == Apply
Spec == Init /\ [][Next]_vars

Applied == phase = "applied"
MaxDist == MaxTo([s \in S |-> Abs(V[s] - W[s])], NS)

WellFormedInv == WellFormed(m)
Monotone    == Applied /\ (\A s \in S : V[s] <= W[s]) => \A s \in S : BV[s] <= BW[s]
Contraction == Applied => \A s \in S : Abs(BV[s] - BW[s]) <= m.GN * m.PD * MaxDist
ShiftLaw    == Applied => \A s \in S : BS[s] = BV[s] + m.GN * m.PD * c
GreedyIsArgmax ==
  Applied => \A s \in S :
     /\ GreedySet(m, V, s) # {}
     /\ \A a \in A : (a \in GreedySet(m, V, s)) <=> (QNum(m, V, s, a) = BV[s])
     /\ \A a \in A : QNum(m, V, s, a) <= BV[s]
PolicyBackupBelow ==
  Applied => \A pol \in [S -> A] : \A s \in S : PolBackupNum(m, pol, V)[s] <= BV[s]
=============================================================================
