----------------------------- MODULE GaussSeidel -----------------------------
(***************************************************************************)
(* The semi-asynchronous sweep as a schedule (C06), independent of any     *)
(* arithmetic: n states are permuted, laid out by BatchingOps on devices x *)
(* batches x slots (padding rows alias the index z of the all-zero state   *)
(* vector), every device scans its batches in order with its own carry.    *)
(* The model records, for every state, how often it was written and which  *)
(* version (old/new) of every other state it read, and carries the masked  *)
(* scatter of the code:  carry[idx] := IF padded THEN carry[idx] ELSE new. *)
(*                                                                         *)
(* Actions:  DrawPerm ; ProcessBatch(d) (next batch of device d, devices   *)
(* interleave arbitrarily) ; Gather ; Unpermute.                           *)
(***************************************************************************)
EXTENDS BatchingOps, TLC

CONSTANTS Bug,   \* "none" | "unmasked_scatter" (padded rows store their value at the aliased index) |
                 \* "perm_as_inverse" (results un-permuted with the permutation instead of its inverse): anti-vacuity
          N, MaxB, MaxD, Z, Shuffle   \* Z in 1..N: state whose vector is all-zero; 0: zero vector is no state (clips to 1)

VARIABLES perm, L, done,        \* done[d] = batches finished on device d
          writes,               \* writes[s] = number of times state s received its new value
          reads,                \* reads[s][t] \in {"old","new","none"}: version of t read when s was computed
          carryNew,             \* carryNew[d][t] = device d's carry holds the NEW value of t
          outSlots,             \* gathered result: slot -> state whose new value it holds (0 padding)
          result, phase
vars == <<perm, L, done, writes, reads, carryNew, outSlots, result, phase>>

States == 1..N
Perms == {p \in [States -> States] : \A s \in States : \E j \in States : p[j] = s}
Identity == [j \in States |-> j]
ZIdx == IF Z = 0 THEN 1 ELSE Z          \* index the padded (all-zero) rows map to

StateAt(slot) == IF slot <= N THEN perm[slot] ELSE 0
SlotsOfBatch(d, b) == {Flat(L, d, b, k) : k \in 1..L.bs}

Init ==
  /\ perm = Identity
  /\ \E maxb \in 1..MaxB, d \in 1..MaxD : L = Layout(N, maxb, d)
  /\ done = [d \in 1..L.nd |-> 0]
  /\ writes = [s \in States |-> 0]
  /\ reads = [s \in States |-> [t \in States |-> "none"]]
  /\ carryNew = [d \in 1..L.nd |-> [t \in States |-> FALSE]]
  /\ outSlots = <<>> /\ result = <<>> /\ phase = "draw"

DrawPerm ==
  /\ phase = "draw"
  /\ perm' \in (IF Shuffle THEN Perms ELSE {Identity})
  /\ phase' = "scan"
  /\ UNCHANGED <<L, done, writes, reads, carryNew, outSlots, result>>

ProcessBatch(d) ==
  /\ phase = "scan" /\ done[d] < L.nb
  /\ LET b == done[d] + 1
         slots == SlotsOfBatch(d, b)
         real == {StateAt(sl) : sl \in {x \in slots : x <= N}}
         padded == \E sl \in slots : sl > N
     IN /\ reads' = [s \in States |->
                       IF s \in real
                       THEN [t \in States |-> IF carryNew[d][t] THEN "new" ELSE "old"]
                       ELSE reads[s]]
        /\ writes' = [s \in States |-> IF s \in real THEN writes[s] + 1
                                      ELSE IF Bug = "unmasked_scatter" /\ padded /\ s = ZIdx THEN writes[s] + 1
                                      ELSE writes[s]]
        \* masked scatter: real rows store their new value; padded rows store carry[ZIdx] back,
        \* so the version held for ZIdx only changes if ZIdx itself is a real row of this batch
        /\ carryNew' = [carryNew EXCEPT ![d] = [t \in States |-> carryNew[d][t] \/ t \in real]]
        /\ done' = [done EXCEPT ![d] = b]
  /\ UNCHANGED <<perm, L, outSlots, result, phase>>

Gather ==
  /\ phase = "scan" /\ \A d \in 1..L.nd : done[d] = L.nb
  /\ outSlots' = [sl \in 1..Slots(L) |-> StateAt(sl)]
  /\ phase' = "gathered"
  /\ UNCHANGED <<perm, L, done, writes, reads, carryNew, result>>

Unpermute ==     \* strip padding, then result[s] = the slot value at the position of s (argsort of perm)
  /\ phase = "gathered"
  /\ result' = [s \in States |-> IF Bug = "perm_as_inverse" THEN outSlots[perm[s]]
                                  ELSE outSlots[CHOOSE j \in States : perm[j] = s]]
  /\ phase' = "done"
  /\ UNCHANGED <<perm, L, done, writes, reads, carryNew, outSlots>>

Next == DrawPerm \/ (\E d \in 1..L.nd : ProcessBatch(d)) \/ Gather \/ Unpermute
Spec == Init /\ [][Next]_vars

PosOf(s) == CHOOSE j \in States : perm[j] = s

(* ---- C06 as invariants -----------------------------------------------------*)
WrittenAtMostOnce == \A s \in States : writes[s] <= 1
WrittenExactlyOnce == phase \in {"gathered", "done"} => \A s \in States : writes[s] = 1
(* read-set rule: s reads the NEW value of t iff t is in an earlier batch on the same device *)
ReadSetRule ==
  phase \in {"gathered", "done"} =>
    \A s \in States : \A t \in States :
       reads[s][t] = (IF DevOf(L, PosOf(t)) = DevOf(L, PosOf(s)) /\ BatchOf(L, PosOf(t)) < BatchOf(L, PosOf(s))
                      THEN "new" ELSE "old")
NaturalOrder == phase = "done" => \A s \in States : result[s] = s
PaddingOnlyAfterRealRows ==      \* why the aliasing of padded rows to ZIdx is harmless
  \A d \in 1..L.nd : \A b \in 1..L.nb :
     (\E sl \in SlotsOfBatch(d, b) : sl > N) =>
        \A b2 \in (b + 1)..L.nb : \A sl \in SlotsOfBatch(d, b2) : sl > N
=============================================================================
