--------------------------- MODULE RangeSpaceTrace ---------------------------
(***************************************************************************)
(* Judges observations of the real create_range_space (space rows and the  *)
(* index function on every vector of the box enlarged by one unit) against *)
(* RangeSpaceOps; boxes too large to list are observed on sampled rows and *)
(* sampled query vectors (o.sampled).                                      *)
(* RangeSpaceOps.  One behaviour per observed box: new -> space -> index.  *)
(***************************************************************************)
EXTENDS Integers, Sequences, FiniteSets, TLC, Json, IOUtils

R == INSTANCE RangeSpaceOps

Obs == JsonDeserialize(IOEnv.TRACE_FILE)

VARIABLES tid, step, verdict
vars == <<tid, step, verdict>>

Init == tid \in 1..Len(Obs) /\ step = "new" /\ verdict = "running"

Reject(clause, detail) == /\ verdict' = "rejected"
                          /\ PrintT(<<"REJECT", tid, clause, detail>>)
                          /\ UNCHANGED <<tid, step>>

CheckSpace ==
  /\ step = "new" /\ verdict = "running"
  /\ LET o == Obs[tid] IN
     IF o.sampled /\ ~R!SampledSpaceOK(o.mins, o.maxs, o.nrows, o.rows, o.space)
     THEN Reject("space (sampled rows of a large box): size or a sampled row differs from row-major order", o.nrows)
     ELSE IF ~o.sampled /\ ~R!SpaceOK(o.mins, o.maxs, o.space)
     THEN Reject("space: not every integer vector of the box exactly once in row-major order", 0)
     ELSE step' = "space" /\ UNCHANGED <<tid, verdict>>

CheckIndex ==
  /\ step = "space" /\ verdict = "running"
  /\ LET o == Obs[tid]
         bad == {k \in 1..Len(o.queries) :
                   IF o.sampled THEN ~R!SampledIndexOK(o.mins, o.maxs, o.nrows, o.queries[k], o.idx[k])
                   ELSE ~R!IndexOK(o.mins, o.maxs, o.space, o.queries[k], o.idx[k])}
         badIn == {k \in bad : R!InBox(o.mins, o.maxs, o.queries[k])}
     IN
     IF badIn # {}
     THEN Reject("index: a listed vector is not mapped to its own row",
                 LET k == CHOOSE k \in badIn : TRUE IN <<o.queries[k], o.idx[k]>>)
     ELSE IF bad # {}
     THEN Reject("index: a vector outside the box is not mapped to the nearest row in each coordinate",
                 LET k == CHOOSE k \in bad : TRUE IN <<o.queries[k], o.idx[k]>>)
     ELSE /\ verdict' = "accepted"
          /\ PrintT(<<"ACCEPT", tid>>)
          /\ UNCHANGED <<tid, step>>

Next == CheckSpace \/ CheckIndex
Spec == Init /\ [][Next]_vars
=============================================================================
