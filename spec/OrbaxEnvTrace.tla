---------------------------- MODULE OrbaxEnvTrace ----------------------------
(***************************************************************************)
(* Validates the ENVIRONMENT assumptions of module Checkpoint against what *)
(* the checkpoint library actually did to the file system: every           *)
(* mkdir/rename/unlink/rmdir under the checkpoint directory is recorded by *)
(* the LD_PRELOAD shim with a process-global sequence number (Python's and *)
(* tensorstore's calls alike) and projected to                             *)
(*   mkdir_tmp(step)   the temporary directory of a save is created        *)
(*   tmp_op(step)      any mutation inside that temporary directory        *)
(*   commit(step)      rename  <step>.orbax-checkpoint-tmp -> <step>       *)
(*   final_op(step,op) any mutation inside a committed step directory      *)
(* Assumptions checked (a failure is reported as environment DRIFT, since  *)
(* the soundness argument of C11 rests on them):                           *)
(*   Orbax_CommitByRename   a step becomes visible only by that one rename,*)
(*                          and nothing inside it changes afterwards       *)
(*                          except its deletion                            *)
(*   Orbax_SavesSerialised  no temporary directory is created while        *)
(*                          another save is still uncommitted              *)
(*   Orbax_GCKeepsNewest    deletions never touch the newest committed step*)
(***************************************************************************)
EXTENDS Integers, Sequences, FiniteSets, TLC, Json, IOUtils

Traces == JsonDeserialize(IOEnv.TRACE_FILE)
VARIABLES tid, i, open, committed, verdict
vars == <<tid, i, open, committed, verdict>>
T == Traces[tid]
Ev == T.ops[i]
SetMax(S) == CHOOSE x \in S : \A y \in S : y <= x

Init == tid \in 1..Len(Traces) /\ i = 1 /\ open = {} /\ committed = {} /\ verdict = "running"

Reject(clause) == /\ verdict' = "rejected" /\ PrintT(<<"REJECT", tid, i, clause>>)
                  /\ UNCHANGED <<tid, i, open, committed>>
Running == verdict = "running" /\ i <= Len(T.ops)
Go == i' = i + 1 /\ UNCHANGED <<tid, verdict>>

MkTmp == /\ Running /\ Ev.k = "mkdir_tmp"
         /\ IF open # {} THEN Reject("Orbax_SavesSerialised: a temporary directory is created while another save is uncommitted")
            ELSE IF Ev.step \in committed THEN Reject("a save for a step that is already committed")
            ELSE open' = open \cup {Ev.step} /\ Go /\ UNCHANGED committed

TmpOp == /\ Running /\ Ev.k = "tmp_op"
         /\ IF Ev.step \notin open THEN Reject("a write into a temporary directory that was never created or is already committed")
            ELSE Go /\ UNCHANGED <<open, committed>>

Commit == /\ Running /\ Ev.k = "commit"
          /\ IF Ev.step \notin open THEN Reject("Orbax_CommitByRename: commit of a step without a temporary directory")
             ELSE open' = open \ {Ev.step} /\ committed' = committed \cup {Ev.step} /\ Go

FinalOp == /\ Running /\ Ev.k = "final_op"
           /\ IF Ev.step \notin committed THEN Reject("Orbax_CommitByRename: a step directory is written without a commit")
              ELSE IF Ev.op \notin {"unlink", "rmdir"} THEN Reject("Orbax_CommitByRename: a committed step is modified")
              ELSE IF Ev.step = SetMax(committed) THEN Reject("Orbax_GCKeepsNewest: the newest committed step is being deleted")
              ELSE Go /\ UNCHANGED <<open, committed>>

Other == /\ Running /\ Ev.k = "other" /\ Go /\ UNCHANGED <<open, committed>>

Accept == /\ verdict = "running" /\ i = Len(T.ops) + 1
          /\ verdict' = "accepted" /\ PrintT(<<"ACCEPT", tid>>) /\ UNCHANGED <<tid, i, open, committed>>

Next == MkTmp \/ TmpOp \/ Commit \/ FinalOp \/ Other \/ Accept
Spec == Init /\ [][Next]_vars
=============================================================================
