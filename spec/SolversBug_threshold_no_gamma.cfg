SPECIFICATION Spec
CONSTANTS
  Kind = "VI"
  NS = 3
  NA = 2
  NE = 1
  PDs = {1}
  Gammas <- GammaSet3
  RewSet <- Rew3
  V0Set <- V0b
  EpsSet <- EpsB
  Tests = {"span", "max_diff"}
  Periods = {1}
  NumGadgets = 6
  MaxScale = 4194304
  Bug = "threshold_no_gamma"
  MaxIter = 22
INVARIANT WellFormedInv
INVARIANT VINearOptimal
INVARIANT VIValuesNearOptimal
INVARIANT ConvergedMeansBelow
