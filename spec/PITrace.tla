------------------------------- MODULE PITrace -------------------------------
(***************************************************************************)
(* Trace validation for policy iteration (C05, and the PI clauses of C01   *)
(* and C08).  Events recorded by the hooks from one real solver:           *)
(*   begin(k)                                                              *)
(*   sweep: one outer iteration = the list of evaluation steps             *)
(*          (policy, old values, new values, measure) followed by the      *)
(*          improvement (values after evaluation, new policy, n_changed)   *)
(*   conv, end                                                             *)
(* Policies are given per state as the sequence of action indices whose    *)
(* vector equals the policy row (several when action vectors are           *)
(* duplicated), `pick` = its first element.                                *)
(*                                                                         *)
(* Layer P: every evaluation step is the one-step expected value under     *)
(* each state's own policy action; the evaluation is a chain of such steps *)
(* within the budget and the values handed to the improvement are one of   *)
(* its iterates; early stop <=> no action vector changed; the returned     *)
(* policy is greedy for the returned values; the first evaluated policy is *)
(* the supplied one or maximises immediate expected reward; error bounds   *)
(* against TLC-verified certificates.  Layer I (DRIFT only): which iterate *)
(* is returned (PI_EvalReturnsPreUpdateIterate), where an evaluation       *)
(* starts (previous values or initial values).                             *)
(***************************************************************************)
EXTENDS SolverOps, TLC, Json, IOUtils

Traces == JsonDeserialize(IOEnv.TRACE_FILE)

VARIABLES tid, i, V, pol, iter, budget, stopped, pend, lec, verdict
\* lec: the evaluation of the last iteration converged within its budget
vars == <<tid, i, V, pol, iter, budget, stopped, pend, lec, verdict>>

T  == Traces[tid]
M  == T.m
Ev == T.ev[i]
ToSet(seq) == {seq[k] : k \in 1..Len(seq)}

Init ==
  /\ tid \in 1..Len(Traces)
  /\ i = 1
  /\ V = Traces[tid].start
  /\ pol = Traces[tid].startpol          \* pick of the policy the solver holds before the first iteration
  /\ iter = Traces[tid].iter0
  /\ budget = -1 /\ stopped = FALSE /\ pend = FALSE /\ lec = FALSE
  /\ verdict = "running"

Reject(clause) ==
  /\ verdict' = "rejected"
  /\ PrintT(<<"REJECT", tid, i, clause>>)
  /\ UNCHANGED <<tid, i, V, pol, iter, budget, stopped, pend, lec>>

Drift(what) == PrintT(<<"DRIFT", tid, what>>)
Running == verdict = "running" /\ i <= Len(T.ev)

ZeroV == [s \in States(M) |-> 0]

Begin ==
  /\ Running /\ Ev.e = "begin"
  /\ IF budget # -1 THEN Reject("begin: previous solve() call has not returned")
     ELSE IF Ev.it # iter THEN Reject("begin: iteration count changed between calls")
     ELSE IF ~Ev.vok \/ Ev.v # V THEN Reject("begin: values changed between calls")
     ELSE IF iter = 0 /\ ~T.injected /\ V # T.v0
       THEN Reject("begin: a fresh solver does not start from the problem's own initial values")
     ELSE IF iter = 0 /\ ~T.startpolok
       THEN Reject("begin: the starting policy contains a vector that is not in the action space")
     ELSE IF iter = 0 /\ T.haspol0 /\ ~T.injectedpol /\ pol # T.pol0
       THEN Reject("begin: the supplied initial policy is not the policy evaluated first")
     ELSE IF iter = 0 /\ ~T.haspol0 /\ ~T.injectedpol
             /\ ~(\A s \in States(M) : pol[s] \in GreedySet(M, ZeroV, s))
       THEN Reject("begin: without an initial policy the first policy does not maximise immediate expected reward")
     ELSE /\ budget' = Ev.k /\ stopped' = FALSE /\ pend' = FALSE
          /\ i' = i + 1
          /\ UNCHANGED <<tid, V, pol, iter, lec, verdict>>

(* ---- one outer iteration ------------------------------------------------- *)
Steps == Ev.evals
NSteps == Len(Steps)

(* step j evaluates the current policy with the one-step expected value at every state *)
StepIsPolicyBackup(j) ==
  /\ Steps[j].ok
  /\ Steps[j].pick = pol
  /\ \A s \in States(M) : Steps[j].new[s] * Den(M) = PolBackupNum(M, pol, Steps[j].old)[s]

StepMeasureOK(j) == Steps[j].c = Measure(T.test, Steps[j].new, Steps[j].old, M.ns)

Chained == \A j \in 1..(NSteps - 1) : Steps[j + 1].old = Steps[j].new

(* the evaluation stopped at its first step below the threshold, or used the whole budget *)
EvalStopOK ==
  /\ \A j \in 1..(NSteps - 1) : ~BelowThreshold("PI", M, Steps[j].c, T.eps)
  /\ (NSteps < T.maxeval) => BelowThreshold("PI", M, Steps[NSteps].c, T.eps)

EvalConverged == BelowThreshold("PI", M, Steps[NSteps].c, T.eps)

(* the values handed to the improvement step are an iterate of the chain *)
ResultIsIterate(W) ==
  \/ W = Steps[1].old
  \/ \E j \in 1..NSteps : W = Steps[j].new

Sweep ==
  /\ Running /\ Ev.e = "sweep"
  /\ IF budget = -1 THEN Reject("sweep: outside any solve() call")
     ELSE IF stopped \/ pend THEN Reject("sweep: iteration continued although the policy was stable")
     ELSE IF budget = 0 THEN Reject("sweep: more iterations than the limit given to solve()")
     ELSE IF Ev.it # iter + 1 THEN Reject("sweep: reported iteration is not the number of iterations performed")
     ELSE IF ~Ev.f64 THEN Reject("sweep: values are not float64 although double precision is requested (the default)")
     ELSE IF NSteps < 1 \/ NSteps > T.maxeval THEN Reject("evaluation: number of steps outside 1..max_eval_iter")
     ELSE IF \E j \in 1..NSteps : ~StepIsPolicyBackup(j)
       THEN Reject("evaluation: a step is not the one-step expected value under each state's own policy action")
     ELSE IF ~Chained THEN Reject("evaluation: steps do not iterate (a step does not start from the previous result)")
     ELSE IF \E j \in 1..NSteps : ~StepMeasureOK(j) THEN Reject("evaluation: convergence measure is not the documented one")
     ELSE IF ~EvalStopOK THEN Reject("evaluation: did not stop at the first step below the threshold / stopped early above it")
     ELSE IF ~Ev.vok \/ ~ResultIsIterate(Ev.v) THEN Reject("evaluation: returned values are not an iterate of the evaluation")
     ELSE IF T.test = "max_diff" /\ EvalConverged /\ T.cert.kind = "discounted" /\ i = T.cert.evalat
             /\ ~(/\ CertPolicyValue(M, pol, T.cert.een, T.cert.cd)
                  /\ \A s \in States(M) :
                        Abs(Ev.v[s] * T.cert.cd[s] - T.cert.een[s]) * M.GN <= T.eps * M.GD * T.cert.cd[s])
       THEN Reject("evaluation: converged under max_diff but values are not within epsilon/gamma of the policy's exact value")
     ELSE IF ~Ev.polok THEN Reject("improvement: new policy contains a vector that is not in the action space")
     ELSE IF ~(\A s \in States(M) : \E a \in GreedySet(M, Ev.v, s) : a \in ToSet(Ev.pol[s]))
       THEN Reject("improvement: new policy is not greedy for the evaluated values")
     ELSE /\ V' = Ev.v
          /\ pol' = Ev.pick
          /\ iter' = iter + 1
          /\ budget' = budget - 1
          /\ pend' = (Ev.pick = pol)                   \* no action vector changed
          /\ lec' = EvalConverged
          /\ (Ev.nchanged = 0) # (Ev.pick = pol) =>
                Drift("n_changed disagrees with the comparison of action vectors")
          /\ (T.reset /\ Steps[1].old # T.v0) \/ (~T.reset /\ Steps[1].old # V) =>
                Drift("evaluation does not start where the model expects (previous values / initial values on reset)")
          /\ (EvalConverged /\ Ev.v # Steps[NSteps].old) \/ (~EvalConverged /\ Ev.v # Steps[NSteps].new) =>
                Drift("PI_EvalReturnsPreUpdateIterate: a different iterate was returned")
          /\ i' = i + 1
          /\ UNCHANGED <<tid, stopped, verdict>>

Converged ==
  /\ Running /\ Ev.e = "conv"
  /\ IF budget = -1 THEN Reject("converged: outside any solve() call")
     ELSE IF ~pend THEN Reject("converged: stopped early although an action vector changed")
     ELSE /\ stopped' = TRUE /\ pend' = FALSE /\ i' = i + 1
          /\ UNCHANGED <<tid, V, pol, iter, budget, lec, verdict>>

CertOK ==
  /\ CertOptimal(M, T.cert.vsn, T.cert.cd)
  /\ CertPolicyValue(M, Ev.pick, T.cert.vpn, T.cert.cd)

(* C01 for PI: loss <= eps/gamma (span), 2*eps/gamma (max_diff) *)
PILossOK ==
  \A s \in States(M) :
     /\ T.cert.vpn[s] <= T.cert.vsn[s]
     /\ (T.cert.vsn[s] - T.cert.vpn[s]) * M.GN
          <= (IF T.test = "span" THEN 1 ELSE 2) * T.eps * M.GD * T.cert.cd[s]

End ==
  /\ Running /\ Ev.e = "end"
  /\ IF budget = -1 THEN Reject("end: solve() returned twice")
     ELSE IF pend THEN Reject("end: policy was stable but convergence was not reported")
     ELSE IF budget > 0 /\ ~stopped THEN Reject("end: returned before the limit without policy stability")
     ELSE IF Ev.it # iter THEN Reject("end: reported iteration is not the number of iterations performed")
     ELSE IF ~Ev.retok THEN Reject("end: the SolverState returned by solve() is not the state the solver holds (values, policy, iteration)")
     ELSE IF ~Ev.vok \/ Ev.v # V THEN Reject("end: returned values are not the evaluated values of the last iteration")
     ELSE IF ~Ev.polok \/ Ev.pick # pol THEN Reject("end: returned policy is not the policy of the last improvement")
     ELSE IF ~(\A s \in States(M) : \E a \in GreedySet(M, V, s) : a \in ToSet(Ev.pol[s]))
       THEN Reject("end: returned policy is not greedy for the returned values")
     ELSE IF stopped /\ i = Len(T.ev) /\ T.cert.kind = "discounted" /\ ~CertOK
       THEN Reject("MACHINERY: certificate supplied by the harness does not verify")
     ELSE IF stopped /\ i = Len(T.ev) /\ T.cert.kind = "discounted" /\ lec /\ ~PILossOK
       THEN Reject("end: converged, but the returned policy is not within the documented error bound of optimal")
     ELSE IF stopped /\ i = Len(T.ev) /\ T.cert.kind = "discounted" /\ lec /\ T.test = "max_diff"
             /\ ~(\A s \in States(M) :
                    Abs(V[s] * T.cert.cd[s] - T.cert.vpn[s]) * M.GN <= T.eps * M.GD * T.cert.cd[s])
       THEN Reject("end: converged under max_diff, but the returned values are not within epsilon/gamma of the returned policy's value")
     ELSE /\ budget' = -1 /\ stopped' = FALSE /\ i' = i + 1
          /\ UNCHANGED <<tid, V, pol, iter, pend, lec, verdict>>

Accept ==
  /\ verdict = "running" /\ i = Len(T.ev) + 1
  /\ IF T.complete /\ budget # -1 THEN Reject("trace ended inside a solve() call")
     ELSE /\ verdict' = "accepted"
          /\ PrintT(<<"ACCEPT", tid>>)
          /\ UNCHANGED <<tid, i, V, pol, iter, budget, stopped, pend, lec>>

Next == Begin \/ Sweep \/ Converged \/ End \/ Accept
Spec == Init /\ [][Next]_vars
=============================================================================
