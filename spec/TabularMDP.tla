---------------------------- MODULE TabularMDP ----------------------------
(***************************************************************************)
(* Finite MDPs in exact fixed-point arithmetic.                            *)
(*                                                                         *)
(* An MDP is a record m with                                               *)
(*   ns, na, ne       numbers of states, actions, events                   *)
(*   next[s][a][e]    successor state (1..ns)                              *)
(*   rew[s][a][e]     reward, an integer at the run's common scale         *)
(*   pk[s][a][e]      probability numerator; probability = pk / PD         *)
(*   PD, GN, GD       probability denominator; discount factor = GN / GD   *)
(* A value vector V is a sequence of integers at the same common scale.    *)
(*                                                                         *)
(* Nothing is ever divided.  One backup of V is represented by its         *)
(* numerator at the *lifted* scale: BackupNum(m, V)[s] = Den(m) * (T V)[s],*)
(* with Den(m) = PD * GD.  An observed vector W is "the backup of V"       *)
(* exactly when  W[s] * Den(m) = BackupNum(m, V)[s]  for all s, so a value *)
(* that is not representable at the scale (a rounding, a float32 leak, a   *)
(* wrong discount factor) simply fails the equation.                       *)
(***************************************************************************)
EXTENDS Integers, Sequences, FiniteSets

States(m)  == 1..m.ns
Actions(m) == 1..m.na
Events(m)  == 1..m.ne
Den(m)     == m.PD * m.GD

(* Sum / maximum / minimum of f[1..n].  The recursion splits the range in halves: TLC evaluates a recursion of     *)
(* depth d in time quadratic in d, so the obvious f[n] + SumTo(f, n - 1) costs minutes for tens of thousands of  *)
(* entries (states of the corridor MDPs, actions beyond 16-bit limits) where this one costs seconds.             *)
RECURSIVE SumR(_, _, _)
SumR(f, lo, hi) == IF lo = hi THEN f[lo]
                   ELSE LET mid == (lo + hi) \div 2 IN SumR(f, lo, mid) + SumR(f, mid + 1, hi)
SumTo(f, n) == IF n = 0 THEN 0 ELSE SumR(f, 1, n)

RECURSIVE MaxR(_, _, _)
MaxR(f, lo, hi) == IF lo = hi THEN f[lo]
                   ELSE LET mid == (lo + hi) \div 2
                            a == MaxR(f, lo, mid)
                            b == MaxR(f, mid + 1, hi)
                        IN IF a > b THEN a ELSE b
MaxTo(f, n) == MaxR(f, 1, n)

RECURSIVE MinR(_, _, _)
MinR(f, lo, hi) == IF lo = hi THEN f[lo]
                   ELSE LET mid == (lo + hi) \div 2
                            a == MinR(f, lo, mid)
                            b == MinR(f, mid + 1, hi)
                        IN IF a < b THEN a ELSE b
MinTo(f, n) == MinR(f, 1, n)

Abs(x) == IF x < 0 THEN -x ELSE x

(* Den(m) * Q(s,a) for value vector V: sum over events of                  *)
(*   pk * (rew * GD + GN * V[next])                                        *)
QNum(m, V, s, a) ==
  SumTo([e \in Events(m) |->
           m.pk[s][a][e] * (m.rew[s][a][e] * m.GD + m.GN * V[m.next[s][a][e]])],
        m.ne)

QRow(m, V, s) == [a \in Actions(m) |-> QNum(m, V, s, a)]

(* Den(m) * (Bellman optimality backup of V) *)
BackupNum(m, V) == [s \in States(m) |-> MaxTo(QRow(m, V, s), m.na)]

(* Den(m) * (backup of V under the stationary policy pol: state -> action index) *)
PolBackupNum(m, pol, V) == [s \in States(m) |-> QNum(m, V, s, pol[s])]

(* the maximising action indices of state s for value vector V *)
GreedySet(m, V, s) ==
  LET row == QRow(m, V, s)
      best == MaxTo(row, m.na)
  IN {a \in Actions(m) : row[a] = best}

(* first maximiser (the tie-breaking the implementation happens to use; layer I only) *)
FirstGreedy(m, V, s) ==
  CHOOSE a \in GreedySet(m, V, s) : \A b \in GreedySet(m, V, s) : a <= b

(* span and max-abs of a difference vector given as a function on 1..n *)
SpanOf(d, n)    == MaxTo(d, n) - MinTo(d, n)
MaxAbsOf(d, n)  == MaxTo([i \in 1..n |-> Abs(d[i])], n)

(* Den * (T V - V) *)
DeltaNum(m, W, V) == [s \in States(m) |-> W[s] - V[s] * Den(m)]

(* Every row of the probability table is a distribution *)
WellFormed(m) ==
  /\ m.ns >= 1 /\ m.na >= 1 /\ m.ne >= 1 /\ m.PD >= 1 /\ m.GD >= 1 /\ m.GN >= 0
  /\ \A s \in States(m) : \A a \in Actions(m) :
       /\ SumTo([e \in Events(m) |-> m.pk[s][a][e]], m.ne) = m.PD
       /\ \A e \in Events(m) : m.pk[s][a][e] >= 0 /\ m.next[s][a][e] \in States(m)

(***************************************************************************)
(* Certificates.  A rational vector is given by numerators cn[s] over a    *)
(* per-state denominator cd[s] (equal within a communicating class, so     *)
(* that unions of gadgets keep small numbers).  CertOptimal says: cn/cd is *)
(* THE optimal value function (fixed point of the backup, unique by        *)
(* contraction when GN < GD).                                              *)
(***************************************************************************)
CertClosed(m, cd) ==
  \A s \in States(m) : \A a \in Actions(m) : \A e \in Events(m) :
     m.pk[s][a][e] > 0 => cd[m.next[s][a][e]] = cd[s]

(* cd * Den * Q(s,a) evaluated on the certificate *)
CertQ(m, cn, cd, s, a) ==
  SumTo([e \in Events(m) |->
           m.pk[s][a][e] * (m.rew[s][a][e] * m.GD * cd[s] + m.GN * cn[m.next[s][a][e]])],
        m.ne)

CertOptimal(m, cn, cd) ==
  /\ \A s \in States(m) : cd[s] > 0
  /\ CertClosed(m, cd)
  /\ \A s \in States(m) :
       MaxTo([a \in Actions(m) |-> CertQ(m, cn, cd, s, a)], m.na) = cn[s] * Den(m)

CertPolicyValue(m, pol, cn, cd) ==
  /\ \A s \in States(m) : cd[s] > 0
  /\ CertClosed(m, cd)
  /\ \A s \in States(m) : CertQ(m, cn, cd, s, pol[s]) = cn[s] * Den(m)

=============================================================================
