SPECIFICATION Spec
CONSTANTS
  NS = 3
  NA = 2
  NE = 2
  PDs = {1, 2, 4}
  Gammas <- AllGammas
  RewSet <- RewDef
  Grid <- Grid3
  Shifts <- ShiftDef
  NumGadgets = 8
INVARIANT WellFormedInv
INVARIANT Monotone
INVARIANT Contraction
INVARIANT ShiftLaw
INVARIANT GreedyIsArgmax
INVARIANT PolicyBackupBelow
