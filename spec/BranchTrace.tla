----------------------------- MODULE BranchTrace -----------------------------
(***************************************************************************)
(* Which of the two documented periodic measures was applied (C07), for    *)
(* discount factors that are NOT small dyadic rationals (e.g. 1 - 2^-17):  *)
(* exact arithmetic is out of reach there, so the harness only classifies  *)
(* each logged measure as matching the undiscounted formula, the           *)
(* discounted formula, both or neither (relative 1e-9, computed from the   *)
(* logged iterates), and this specification decides legality:              *)
(*   gamma = 1  =>  span(V_n - V_(n-period))                               *)
(*   gamma < 1  =>  span(sum_j (V_j - V_(j-1)) / gamma^(j-1))              *)
(*   n < period =>  no finite measure at all.                              *)
(***************************************************************************)
EXTENDS Integers, Sequences, TLC, Json, IOUtils

Traces == JsonDeserialize(IOEnv.TRACE_FILE)
VARIABLES tid, i, verdict
vars == <<tid, i, verdict>>
T == Traces[tid]
Ev == T.sweeps[i]

Init == tid \in 1..Len(Traces) /\ i = 1 /\ verdict = "running"
Reject(clause) == verdict' = "rejected" /\ PrintT(<<"REJECT", tid, i, clause>>) /\ UNCHANGED <<tid, i>>

Sweep ==
  /\ verdict = "running" /\ i <= Len(T.sweeps)
  /\ IF Ev.it < T.period
     THEN (IF ~Ev.inf THEN Reject("a finite measure was produced before one full period") ELSE i' = i + 1 /\ UNCHANGED <<tid, verdict>>)
     ELSE IF Ev.inf THEN Reject("no measure although a full period has elapsed")
     ELSE IF T.gammaisone /\ ~Ev.undisc THEN Reject("gamma = 1 but the measure is not span(V_n - V_(n-period))")
     ELSE IF ~T.gammaisone /\ ~Ev.disc
       THEN Reject("gamma < 1 but the measure is not the discount-corrected sum over the last period")
     ELSE i' = i + 1 /\ UNCHANGED <<tid, verdict>>

Accept == /\ verdict = "running" /\ i = Len(T.sweeps) + 1
          /\ verdict' = "accepted" /\ PrintT(<<"ACCEPT", tid>>) /\ UNCHANGED <<tid, i>>

Next == Sweep \/ Accept
Spec == Init /\ [][Next]_vars
=============================================================================
