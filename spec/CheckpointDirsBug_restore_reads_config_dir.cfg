SPECIFICATION Spec
CONSTANTS
  NDirs = 3
  MaxIter = 3
  Keep = 2
  MaxRuns = 3
  Bug = "restore_reads_config_dir"
INVARIANT RestoreReadsSource
INVARIANT LabelIsIteration
INVARIANT AtMostKeep
INVARIANT LastIterationSaved
INVARIANT DefaultDirIsOwn
PROPERTY SourceUntouched
