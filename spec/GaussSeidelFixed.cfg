SPECIFICATION Spec
CONSTANTS
  N = 7
  MaxB = 8
  MaxD = 4
  Z = 0
  Shuffle = FALSE
INVARIANT WrittenAtMostOnce
INVARIANT WrittenExactlyOnce
INVARIANT ReadSetRule
INVARIANT NaturalOrder
INVARIANT PaddingOnlyAfterRealRows
