----------------------------- MODULE BatchingOps -----------------------------
(***************************************************************************)
(* Layout of n states into devices x batches x batch_size slots, as        *)
(* documented for mdpax.utils.batch_processing.BatchProcessor.             *)
(*                                                                         *)
(* Layer P (what property C18 demands of ANY implementation): LayoutOK,    *)
(* PreparedOK, UnbatchOK.  Layer I (what the current code documents):      *)
(* Layout(n, maxb, d).  The state machine below enumerates every point of  *)
(* a bounded box and checks that the documented layout satisfies layer P.  *)
(***************************************************************************)
EXTENDS Integers, Sequences, FiniteSets

CeilDiv(a, b) == (a + b - 1) \div b
Min(a, b) == IF a < b THEN a ELSE b
Max(a, b) == IF a > b THEN a ELSE b

MinMultiDeviceBatch == 64

(* documented layout: ceiling division per device; single device clips the batch to the    *)
(* problem size; several devices use at least 64 per batch but never more than maxb        *)
Layout(n, maxb, d) ==
  LET spd == CeilDiv(n, d)
      bs  == IF d = 1 THEN Min(maxb, n) ELSE Min(maxb, Max(MinMultiDeviceBatch, spd))
      nb  == IF spd <= bs THEN 1 ELSE CeilDiv(spd, bs)
  IN [nd |-> d, nb |-> nb, bs |-> bs, pad |-> d * nb * bs - n]

Slots(L) == L.nd * L.nb * L.bs

(* ---- layer P ---------------------------------------------------------- *)
LayoutOK(n, maxb, d, L) ==
  /\ L.nd = d
  /\ L.nb >= 1
  /\ 1 <= L.bs /\ L.bs <= maxb
  /\ L.pad >= 0
  /\ Slots(L) = n + L.pad

(* flat slot index (1-based) of position (dev, batch, k), all 1-based: row-major *)
Flat(L, dev, b, k) == ((dev - 1) * L.nb + (b - 1)) * L.bs + k
DevOf(L, i)   == ((i - 1) \div (L.nb * L.bs)) + 1
BatchOf(L, i) == (((i - 1) \div L.bs) % L.nb) + 1

(* states are numbered 1..n; a padding slot holds 0 *)
Prepared(n, L) == [i \in 1..Slots(L) |-> IF i <= n THEN i ELSE 0]

(* the prepared array, given as a flat row-major sequence of length Slots(L), places every  *)
(* state exactly once, in the original order, followed only by padding                      *)
PreparedOK(n, L, flat) ==
  /\ Len(flat) = Slots(L)
  /\ \A i \in 1..Len(flat) : flat[i] = (IF i <= n THEN i ELSE 0)

(* un-batching a result of that shape returns exactly one row per state, original order *)
Unbatch(n, L, flat) == [i \in 1..n |-> flat[i]]
UnbatchOK(n, out) == Len(out) = n /\ \A i \in 1..n : out[i] = i

=============================================================================
