SPECIFICATION FairSpec
CONSTANTS
  Freqs = {1, 2}
  Keeps = {1, 2}
  Asyncs = {TRUE, FALSE}
  ConvAts = {4}
  CallSeqs <- Calls1
  MaxGen = 1
  AllowExplicit = FALSE
  Bug = "none"
PROPERTY EverySaveFinalised
