#!/bin/sh
# usage: tools/try_mutant.sh <patch.diff> <prop> [more props...]   (applies to /repo, runs checks, reverts)
patch="$1"; shift
git -C /repo apply "$patch" || { echo "PATCH DOES NOT APPLY"; exit 3; }
trap 'git -C /repo checkout -- . ' EXIT INT TERM
for p in "$@"; do
  out=$(/verif/check "$p" --tier "${TIER:-quick}" 2>&1); rc=$?
  echo "=== $p on $(basename $(dirname $patch)): exit=$rc violations=$(echo "$out" | grep -c '^VIOLATION') drift=$(echo "$out" | grep -c '^SPEC-DRIFT') machinery=$(echo "$out" | grep -c 'MACHINERY')"
  echo "$out" | grep -A1 '^VIOLATION' | grep 'key=' | cut -c1-${W:-160} | sort | uniq -c | sort -rn | head -${N:-3}
  echo "$out" | grep 'MACHINERY' | head -2 | cut -c1-300
done
