#!/bin/sh
# usage: tools/try_mutant.sh <patch.diff> <prop> [more props...]   (applies to /repo, runs quick checks, reverts)
patch="$1"; shift
git -C /repo apply "$patch" || { echo "PATCH DOES NOT APPLY"; exit 3; }
trap 'git -C /repo checkout -- . ' EXIT INT TERM
for p in "$@"; do
  echo "=== $p on $(basename $(dirname $patch))"
  /verif/check "$p" --tier "${TIER:-quick}" 2>&1 | grep -E "VIOLATION|KNOWN-FINDING|SPEC-DRIFT|MACHINERY|^\[C|key=" | head -${LINES_MAX:-12}
  echo "exit=$?"
done
