#!/bin/sh
# usage: tools/try_mutant.sh <patch.diff> <prop> [more props...]
# Applies the patch to a scratch worktree of /repo (never to /repo itself), runs the checks against it
# through VERIF_REPO, removes the worktree.
patch="$1"; shift
wt=$(mktemp -d /tmp/mutwt-XXXXXX); rmdir "$wt"
git -C /repo worktree add -q --detach "$wt" HEAD || exit 3
trap 'git -C /repo worktree remove --force "$wt" >/dev/null 2>&1' EXIT INT TERM
git -C "$wt" apply "$patch" || { echo "PATCH DOES NOT APPLY"; exit 3; }
for p in "$@"; do
  out=$(VERIF_REPO="$wt" /verif/check "$p" --tier "${TIER:-quick}" 2>&1); rc=$?
  echo "=== $p on $(basename $(dirname $patch)): exit=$rc violations=$(echo "$out" | grep -c '^VIOLATION') drift=$(echo "$out" | grep -c '^SPEC-DRIFT') machinery=$(echo "$out" | grep -c 'MACHINERY')"
  echo "$out" | grep -A1 '^VIOLATION' | grep 'key=' | cut -c1-${W:-160} | sort | uniq -c | sort -rn | head -${N:-3}
  echo "$out" | grep 'MACHINERY' | head -2 | cut -c1-300
done
