#!/bin/sh
# usage: tools/seed_sweep.sh "<seeds>" [props...]  - runs quick checks under several seeds, prints one line each
seeds="${1:-1 2 3}"; shift
props="${*:-C01 C02 C03 C04 C05 C06 C07 C08 C09 C10 C11 C12 C14 C15 C17 C18 C19 C20}"
for sd in $seeds; do for p in $props; do
  out=$(VERIF_SEED=$sd ./check $p --tier quick 2>&1); rc=$?
  echo "seed=$sd $p rc=$rc $(echo "$out" | tail -1 | cut -c1-160)"
  if [ $rc -ne 0 ]; then echo "$out" | grep -A1 -E "^VIOLATION|MACHINERY" | cut -c1-400 | head -8; fi
done; done
