#!/venv/bin/python
"""Regenerate MANIFEST.json from the table below (keeps it valid at all times)."""
import json, subprocess
from pathlib import Path

V = Path("/verif")
BUILT = {
 # id: (technique, level text, level note, design_ref)
}
exec((V / "tools" / "manifest_table.py").read_text())

hooks = subprocess.run("git -C /repo log --format=%H --grep='^verif hook' --reverse", shell=True,
                       capture_output=True, text=True).stdout.split()
NA_FIXED = {
 "C13": "numeric accuracy of gamma/negative-binomial/Poisson/softmax mass functions summed in floating point; TLA+ has no reals and TLC no floats - outside what an explicit-state model can decide (DESIGN.md section 5)",
 "C16": "fidelity of event probabilities to transcendental distributions (gamma CDF, negative binomial x multinomial, compound Poisson-binomial); numeric, not state-machine behaviour (DESIGN.md section 5)",
}
props = [json.loads(l)["id"] for l in open(V / "properties.jsonl")]
checks, na = [], []
for pid in props:
    if pid in BUILT:
        tech, text, note, ref = BUILT[pid]
        checks.append({
            "property_id": pid,
            "quick_cmd": f"./check {pid} --tier quick",
            "thorough_cmd": f"./check {pid} --tier thorough",
            "evidence_file": f"/verif/evidence/{pid}.json",
            "replay_cmd_template": f"./check {pid} --replay {{path}}",
            "engine": "tlc+harness",
            "level_claimed": {"category": "model_checking", "text": text, "design_ref": ref},
            "level_note": note,
            "technique": tech,
        })
    elif pid in NA_FIXED:
        na.append({"property_id": pid, "reason": NA_FIXED[pid]})
    else:
        na.append({"property_id": pid, "reason": "not claimed yet: its TLA+ specification and conformance binding are still under construction (DESIGN.md section 3)"})
man = {
 "version": 1,
 "setup_cmd": "sh /verif/tools/setup.sh",
 "hooks": {
   "guard": "MDPAX_VERIF",
   "enable": "MDPAX_VERIF=1 in the environment of the process importing mdpax (set by harness/common.py child_env); optional MDPAX_VERIF_TRACE=<file>, MDPAX_VERIF_KILL_AT=<n>",
   "baseline_off_cmd": "cd /repo && env -u MDPAX_VERIF /venv/bin/python -m pytest -ra -q -p no:cacheprovider --timeout=900 --continue-on-collection-errors",
   "source_commits": hooks,
   "add_only": True,
 },
 "engines": [{"name": "tlc+harness", "path": "/verif/check",
              "serves_properties": [c["property_id"] for c in checks],
              "kind_free_text": "TLA+ specifications in /verif/spec checked by TLC (exhaustive bounded models + trace validation of behaviours recorded from the real code + replay of TLC-enumerated cases into the real code); Python harness in /verif/harness"}],
 "checks": checks,
 "not_applicable": na,
 "notes": "See DESIGN.md. Exit 0 = held (KNOWN-FINDING lines allowed), 1 = VIOLATION, 2 = machinery failure. VERIF_SEED seeds sampling; VERIF_TIER honoured.",
}
(V / "MANIFEST.json").write_text(json.dumps(man, indent=1))
import jsonschema
jsonschema.validate(man, json.load(open("/root/.vp/MANIFEST.schema.json")))
print("MANIFEST ok:", len(checks), "checks,", len(na), "not applicable")
