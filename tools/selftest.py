#!/venv/bin/python
"""Self-test of the binding (DESIGN.md 2.6): traces recorded from the REAL code on the unchanged tree are
accepted; each of a catalogue of single corruptions (one logged value changed, one event dropped, one
label changed) must be rejected by the trace specification, with the expected clause.

usage: PYTHONPATH=/verif tools/selftest.py        writes /verif/selftest/RESULTS.json, exit 0 iff all as expected
"""
import copy
import json
import random
import sys
import time
from pathlib import Path

sys.path.insert(0, "/verif")
from harness import ckptlib, common as C, gen, invlib, solverlib  # noqa: E402
from harness import c09, c18  # noqa: E402

OUT = Path("/verif/selftest")
rng = random.Random(7)
results = []


def record(spec, name, expect_clause, rej, k):
    got = rej.get(k)
    ok = got is not None and (expect_clause is None or any(expect_clause in json.dumps(g) for g in got))
    results.append({"spec": spec, "corruption": name, "rejected": got is not None, "as_expected": ok,
                    "clause": json.dumps(got)[:160] if got else None})


def judge(module, traces, **kw):
    acc, rej, drift, res = C.judge_traces(module, traces, what="selftest", **kw)
    return acc, rej


# ---------------------------------------------------------------- solver traces
def solver_selftest():
    m = gen.union(rng, 5, PD=2)
    uni = gen.unichain(rng, ns=4, PD=2)
    ring = gen.ring(rng, 3, extra=1)
    jobs = [
        {"mdp": m, "kind": "VI", "gamma": [1, 2], "eps": [1, 2], "test": "span", "calls": [2, 30], "mbs": 5, "cert": True},
        {"mdp": m, "kind": "SAVI", "gamma": [1, 2], "eps": [1, 2], "test": "max_diff", "calls": [4], "mbs": 4,
         "shuffle": True, "seed": 3, "twin": True},
        {"mdp": uni, "kind": "RVI", "gamma": [1, 1], "eps": [1, 2], "calls": [40], "mbs": 2, "cert": True},
        {"mdp": ring, "kind": "PVI", "gamma": [1, 1], "eps": [1, 1], "period": 3, "clear": False, "calls": [12], "mbs": 64,
         "cert": True},
    ]
    j2, trs = solverlib.run_jobs(jobs, nproc=4)
    clean = [{k: v for k, v in t.items() if k not in solverlib.STRIP} for t in trs]
    acc, rej = judge("SolverTrace", clean)
    for k in range(len(clean)):
        results.append({"spec": "SolverTrace", "corruption": f"none ({jobs[k]['kind']})", "rejected": k in rej,
                        "as_expected": k in acc, "clause": json.dumps(rej.get(k))[:160] if k in rej else None})
    cases = []

    def add(base, name, clause, fn):
        t = copy.deepcopy(clean[base])
        fn(t)
        cases.append((name, clause, t))

    def sweeps(t):
        return [i for i, e in enumerate(t["ev"]) if e["e"] == "sweep"]

    add(0, "VI: one value mantissa off by one", "exact Bellman backup", lambda t: t["ev"][sweeps(t)[1]]["v"].__setitem__(0, t["ev"][sweeps(t)[1]]["v"][0] + 1))
    add(0, "VI: measure off by one", "measure", lambda t: t["ev"][sweeps(t)[0]].__setitem__("c", t["ev"][sweeps(t)[0]]["c"] + 1))
    add(0, "VI: a sweep event dropped", None, lambda t: t["ev"].pop(sweeps(t)[0]))
    add(0, "VI: converged event dropped", "did not report convergence", lambda t: t["ev"].pop(next(i for i, e in enumerate(t["ev"]) if e["e"] == "conv")))
    add(0, "VI: iteration label +1", "iteration", lambda t: t["ev"][sweeps(t)[0]].__setitem__("it", t["ev"][sweeps(t)[0]]["it"] + 1))
    add(0, "VI: limit of first call lowered to 1", "more sweeps than the limit", lambda t: t["ev"][0].__setitem__("k", 1))
    add(0, "VI: value marked inexact", "not exactly representable", lambda t: t["ev"][sweeps(t)[0]].__setitem__("vok", False))

    def nongreedy(t):
        e = t["ev"][-1]
        na = t["m"]["na"]
        e["pol"] = [[a for a in range(1, na + 1) if a not in s] or s for s in e["pol"]]
    add(0, "VI: returned policy replaced by non-maximisers", "greedy", nongreedy)
    add(0, "VI: optimal-value certificate numerator +1", "MACHINERY", lambda t: t["cert"]["vsn"].__setitem__(0, t["cert"]["vsn"][0] + 1))
    add(0, "VI: epsilon shrunk 64x (bound must fail or stop rule must fail)", None, lambda t: t.__setitem__("eps", max(1, t["eps"] // 64)))
    def swap_perm(t):
        e = t["ev"][sweeps(t)[0]]
        e["permref"] = []
        e["perm"][0], e["perm"][-1] = e["perm"][-1], e["perm"][0]
        for pos_, st_ in enumerate(e["perm"]):          # the harness derives the inverse from the logged permutation
            e["pinv"][st_ - 1] = pos_ + 1
    add(1, "SAVI: first and last entry of a permutation swapped", "Gauss-Seidel", swap_perm)
    add(1, "SAVI: permutation with a repeated state", "permutation", lambda t: t["ev"][sweeps(t)[0]]["perm"].__setitem__(0, t["ev"][sweeps(t)[0]]["perm"][1]))
    add(1, "SAVI: inverse permutation not the inverse (machinery)", "MACHINERY", lambda t: t["ev"][sweeps(t)[0]]["pinv"].reverse())
    add(1, "SAVI: twin permutation differs", "reproducible", lambda t: t["ev"][sweeps(t)[1]]["permref"].reverse())
    add(1, "SAVI: layout claims one batch per device", "Gauss-Seidel", lambda t: t["layout"].update({"nb": 1, "bs": t["m"]["ns"]}))
    add(2, "RVI: one component shifted (not a common constant)", "common constant", lambda t: t["ev"][sweeps(t)[2]]["v"].__setitem__(0, t["ev"][sweeps(t)[2]]["v"][0] + 1))
    add(2, "RVI: reported gain shifted by 4 eps", "gain", lambda t: t["ev"][-1].__setitem__("g", t["ev"][-1]["g"] + 4 * t["eps"]))
    add(3, "PVI: measure reported finite before one period", "measure", lambda t: t["ev"][sweeps(t)[0]].update({"inf": False, "cok": True, "c": 0}))
    add(3, "PVI: measure off by one after one period", "measure", lambda t: t["ev"][sweeps(t)[3]].__setitem__("c", t["ev"][sweeps(t)[3]]["c"] + 1))
    acc, rej = judge("SolverTrace", [c[2] for c in cases])
    for k, (name, clause, _) in enumerate(cases):
        if clause == "MACHINERY":
            results.append({"spec": "SolverTrace", "corruption": name, "rejected": k in rej, "as_expected": k in rej,
                            "clause": json.dumps(rej.get(k))[:160]})
        else:
            record("SolverTrace", name, clause, rej, k)


def pi_selftest():
    m = gen.union(rng, 4, PD=2, v0max=2)
    jobs = [{"mdp": m, "kind": "PI", "gamma": [1, 2], "eps": [1, 2], "test": "max_diff", "calls": [30], "mbs": 5,
             "max_eval_iter": 20, "cert": True}]
    j2, trs = solverlib.run_jobs(jobs, nproc=1)
    clean = [{k: v for k, v in t.items() if k not in solverlib.STRIP} for t in trs]
    acc, rej = judge("PITrace", clean)
    results.append({"spec": "PITrace", "corruption": "none", "rejected": 0 in rej, "as_expected": 0 in acc, "clause": None})
    cases = []

    def add(name, clause, fn):
        t = copy.deepcopy(clean[0])
        fn(t)
        cases.append((name, clause, t))
    sw = [i for i, e in enumerate(clean[0]["ev"]) if e["e"] == "sweep"]
    add("PI: one evaluation step value +1", "one-step expected value", lambda t: t["ev"][sw[0]]["evals"][0]["new"].__setitem__(0, t["ev"][sw[0]]["evals"][0]["new"][0] + 1))
    add("PI: evaluation steps unchained", None, lambda t: t["ev"][sw[0]]["evals"][1]["old"].__setitem__(0, t["ev"][sw[0]]["evals"][1]["old"][0] + 1) if len(t["ev"][sw[0]]["evals"]) > 1 else t["ev"][sw[0]]["evals"][0]["new"].__setitem__(0, 10 ** 6))
    add("PI: budget claimed to be 1", "max_eval_iter", lambda t: t.__setitem__("maxeval", 1) if max(len(t["ev"][i]["evals"]) for i in sw) > 1 else t.__setitem__("maxeval", 0))
    add("PI: converged event dropped", None, lambda t: t["ev"].pop(next(i for i, e in enumerate(t["ev"]) if e["e"] == "conv")))
    add("PI: first policy not immediate-reward greedy", None, lambda t: t.__setitem__("startpol", [(a % t["m"]["na"]) + 1 for a in t["startpol"]]))
    add("PI: returned values not an iterate", "iterate", lambda t: t["ev"][sw[-1]]["v"].__setitem__(0, t["ev"][sw[-1]]["v"][0] + 1))
    acc, rej = judge("PITrace", [c[2] for c in cases])
    for k, (name, clause, _) in enumerate(cases):
        record("PITrace", name, clause, rej, k)


def ckpt_selftest():
    scs = [s for s in c09.scenarios("quick", random.Random(9)) if s["name"].startswith(("VI-forest", "PVI-forest12", "RVI-tab"))][:3]
    res = ckptlib.run_all(scs)
    clean = [t for _, t, _ in res]
    acc, rej = judge("CheckpointTrace", clean)
    for k in range(len(clean)):
        results.append({"spec": "CheckpointTrace", "corruption": f"none ({scs[k]['name']})", "rejected": k in rej,
                        "as_expected": k in acc, "clause": json.dumps(rej.get(k))[:160] if k in rej else None})
    cases = []

    def add(base, name, clause, fn):
        t = copy.deepcopy(clean[base])
        fn(t)
        cases.append((name, clause, t))

    def idx(t, kind, n=0):
        return [i for i, e in enumerate(t["ev"]) if e["e"] == kind][n]
    add(0, "save label +1", "label", lambda t: t["ev"][idx(t, "save_call")].__setitem__("step", t["ev"][idx(t, "save_call")]["step"] + 1))
    add(0, "saved values carry another iteration's tag", "state handed", lambda t: t["ev"][idx(t, "save_call")].__setitem__("vtag", 0))
    add(0, "restored values match no iterate (Bad)", "torn", lambda t: t["ev"][idx(t, "restore_ok")].__setitem__("vtag", -1))
    add(0, "restored iteration is not the latest step", "latest", lambda t: t["ev"][idx(t, "restore_ok")].update({"iter": t["ev"][idx(t, "restore_ok")]["iter"] - 1, "itag": 0}))
    add(0, "a save call dropped", None, lambda t: t["ev"].pop(idx(t, "save_call")))
    add(0, "final listing lacks the last iteration", None, lambda t: t["ev"][idx(t, "listing", -1)].__setitem__("fin", t["ev"][idx(t, "listing", -1)]["fin"][:-1]))
    add(0, "listing shows a step that was never saved", "not a save point", lambda t: t["ev"][idx(t, "listing", 0)]["fin"].append(9999))
    add(0, "a resumed sweep carries the wrong tag", "differs from the uninterrupted", lambda t: t["ev"][idx(t, "sweep", -1)].__setitem__("vtag", 0))
    add(1, "PVI: restored history tag wrong", None, lambda t: t["ev"][idx(t, "restore_ok")].__setitem__("htag", 0))
    add(2, "RVI: restored gain tag wrong", None, lambda t: t["ev"][idx(t, "restore_ok")].__setitem__("gtag", 0))
    add(0, "restored configuration differs", "configuration", lambda t: t["ev"][idx(t, "restore_ok")].__setitem__("cfgeq", False))
    acc, rej = judge("CheckpointTrace", [c[2] for c in cases])
    for k, (name, clause, _) in enumerate(cases):
        record("CheckpointTrace", name, clause, rej, k)


def table_selftests():
    import subprocess
    # Batching / RangeSpace / Inventory / Matrices / Config observations from the real code
    with C.Scratch("verif-self-") as d:
        p = C.run_python(["-m", "harness.workers.batching_worker"], input_json={"points": [[10, 3, 2], [7, 64, 1]], "out": str(d / "b.json")}, cwd="/verif")
        b = json.loads((d / "b.json").read_text())
        p = C.run_python(["-m", "harness.workers.rangespace_worker"], input_json={"boxes": [[[-1, 0], [1, 2]], [[0, 1], [300, 299], 7]], "out": str(d / "r.json")}, cwd="/verif")
        r = json.loads((d / "r.json").read_text())
    for o in b:
        o.pop("shape", None)
        o.pop("error", None)
    cases = [("none", None, copy.deepcopy(b[0]))]
    t = copy.deepcopy(b[0]); t["bs"] = t["maxb"] + 1; cases.append(("batch_size above max_batch_size", "layout", t))
    t = copy.deepcopy(b[0]); t["flat"][0], t["flat"][1] = t["flat"][1], t["flat"][0]; cases.append(("two states swapped in prepare_batches", "prepare_batches", t))
    t = copy.deepcopy(b[0]); t["un"][1] = t["un"][1][:-2]; cases.append(("unbatch returns one row too few", "unbatch_results", t))
    t = copy.deepcopy(b[0]); t["pad"] -= 1; cases.append(("padding count off by one", "layout", t))
    acc, rej = judge("BatchingTrace", [c[2] for c in cases])
    for k, (name, clause, _) in enumerate(cases):
        if name == "none":
            results.append({"spec": "BatchingTrace", "corruption": "none", "rejected": k in rej, "as_expected": k in acc, "clause": None})
        else:
            record("BatchingTrace", name, clause, rej, k)
    cases = [("none", None, copy.deepcopy(r[0]))]
    t = copy.deepcopy(r[0]); t["idx"][5] += 1; cases.append(("one index off by one", "index", t))
    t = copy.deepcopy(r[0]); t["space"][0], t["space"][1] = t["space"][1], t["space"][0]; cases.append(("two space rows swapped", "space", t))
    # a box too large to list, observed on sampled rows
    cases.append(("none (sampled)", None, copy.deepcopy(r[1])))
    t = copy.deepcopy(r[1]); t["space"][3][0] += 1; cases.append(("sampled: one sampled row differs", "space", t))
    t = copy.deepcopy(r[1]); t["nrows"] -= 1; cases.append(("sampled: row count off by one", "space", t))
    t = copy.deepcopy(r[1]); t["idx"][9] += 1; cases.append(("sampled: one index off by one", "index", t))
    acc, rej = judge("RangeSpaceTrace", [c[2] for c in cases])
    for k, (name, clause, _) in enumerate(cases):
        if name.startswith("none"):
            results.append({"spec": "RangeSpaceTrace", "corruption": name, "rejected": k in rej, "as_expected": k in acc, "clause": None})
        else:
            record("RangeSpaceTrace", name, clause, rej, k)
    # inventory
    ps = [{"kind": "demoor", "m": 2, "L": 2, "Q": 2, "D": 3, "fifo": True, "coef": [-3.0, -5.0, -7.0, -1.0]},
          {"kind": "mirjalili", "m": 2, "Q": 2, "D": 2, "coef": [0.0, -10.0, -20.0, -5.0, -1.0]}]
    obs = [{k: v for k, v in o.items() if k != "nonfinite_or_negative_prob"} for o in invlib.observe(ps)]
    obs.sort(key=lambda o: o["P"]["kind"])
    cases = [("none (demoor)", None, copy.deepcopy(obs[0])), ("none (mirjalili)", None, copy.deepcopy(obs[1]))]
    k0 = next(i for i, pp in enumerate(obs[0]["ppos"]) if pp)
    t = copy.deepcopy(obs[0]); t["next"][k0][-1] += 1; cases.append(("demoor: one successor component +1", "C15", t))
    t = copy.deepcopy(obs[0]); t["rew"][k0] += 1; cases.append(("demoor: one reward +1", "C15", t))
    t = copy.deepcopy(obs[0]); t["nidx"][k0] = (t["nidx"][k0] + 1) % len(t["states"]); cases.append(("demoor: successor index points to another row", "C14", t))
    t = copy.deepcopy(obs[0]); t["sidx"][1] = 0; cases.append(("demoor: state index not own row", "C14", t))
    t = copy.deepcopy(obs[1]); t["next"][3][0] = (t["next"][3][0] + 1) % 7; cases.append(("mirjalili: weekday advanced twice", "C15", t))
    acc, rej = judge("InventoryTrace", [c[2] for c in cases], chunk=12)
    for k, (name, clause, _) in enumerate(cases):
        if name.startswith("none"):
            results.append({"spec": "InventoryTrace", "corruption": name, "rejected": k in rej, "as_expected": k in acc, "clause": None})
        else:
            record("InventoryTrace", name, clause, rej, k)


def matrices_selftest():
    from harness import tabular as T
    r2 = random.Random(5)
    m1 = T.random_mdp(r2, ns=3, na=2, ne=2, PD=4, rmax=3, plain_render=True)
    m2 = copy.deepcopy(m1)
    m2["pk"][1][0][0] = max(0, m2["pk"][1][0][0] - 1) if m2["pk"][1][0][0] > 0 else 1      # a deviating row
    m3 = copy.deepcopy(m1)
    fk = [[[0, 0] for _ in range(2)] for _ in range(3)]
    e = 0 if m3["pk"][2][1][0] > 0 else 1
    fk[2][1][e] = -2                                                                       # deviation of 2 * 2^-41
    jobs = [{"mdp": m1, "tol": [0, 1]}, {"mdp": m2, "tol": [1, 8192]},
            {"mdp": m3, "tol": [0, 1], "fk": fk, "tf": 1, "K": 41},                       # 2 units > 1 unit: error
            {"mdp": m3, "tol": [0, 1], "fk": fk, "tf": 2, "K": 41}]                       # 2 units <= 2 units: fine
    with C.Scratch("verif-self-m-") as d:
        p = C.run_python(["-m", "harness.workers.matrices_worker"], input_json={"jobs": jobs, "out": str(d / "m.json")}, cwd="/verif")
        if p.returncode != 0:
            raise C.MachineryError(p.stderr[-1500:])
        obs = json.loads((d / "m.json").read_text())
    names = ["exact", "deviating", "fine: 2 units over tolerance 1 unit", "fine: 2 units within tolerance 2 units"]
    cases = [(f"none ({n})", None, copy.deepcopy(o)) for n, o in zip(names, obs)]
    t = copy.deepcopy(obs[0]); t["P"][0][0][0] += 1; cases.append(("one transition entry +1", "transition entry", t))
    t = copy.deepcopy(obs[0]); t["R"][1][1] += 1; cases.append(("one reward entry +1", "reward entry", t))
    t = copy.deepcopy(obs[0]); t["unit"] = False; cases.append(("a row does not sum to one", "sum to one", t))
    t = copy.deepcopy(obs[1]); t["outcome"] = "ok"; cases.append(("deviating row accepted silently", "no ValueError", t))
    t = copy.deepcopy(obs[1]); t["errs"] = 1 if t["errs"] != 1 else 3; cases.append(("error names another pair", "does not name", t))
    t = copy.deepcopy(obs[2]); t["outcome"] = "ok"; cases.append(("fine: deviation 1e-12 above the tolerance accepted", "no ValueError", t))
    t = copy.deepcopy(obs[3]); t["outcome"] = "error"; cases.append(("fine: error although within the tolerance", "although every row", t))
    t = copy.deepcopy(obs[2]); t["K"] = 20; cases.append(("fine: unit not negligible", "MACHINERY", t))
    acc, rej = judge("MatricesTrace", [c[2] for c in cases])
    for k, (name, clause, _) in enumerate(cases):
        if name.startswith("none"):
            results.append({"spec": "MatricesTrace", "corruption": name, "rejected": k in rej, "as_expected": k in acc, "clause": None})
        else:
            record("MatricesTrace", name, clause, rej, k)


def main():
    t0 = time.time()
    matrices_selftest()
    solver_selftest()
    pi_selftest()
    ckpt_selftest()
    table_selftests()
    OUT.mkdir(exist_ok=True)
    bad = [r for r in results if not r["as_expected"]]
    summary = {"total": len(results), "as_expected": len(results) - len(bad), "unexpected": bad, "wall_s": round(time.time() - t0, 1),
               "results": results}
    (OUT / "RESULTS.json").write_text(json.dumps(summary, indent=1))
    for r in results:
        print(("ok  " if r["as_expected"] else "FAIL"), r["spec"], "|", r["corruption"], "|", (r["clause"] or "")[:90])
    print(f"{len(results) - len(bad)}/{len(results)} as expected")
    sys.exit(1 if bad else 0)


if __name__ == "__main__":
    main()
