#!/bin/sh
# Offline setup: parse every specification with SANY; build the fault-injection shim if present.
set -e
cd /verif/spec
for f in *.tla; do
  java -cp /opt/veriftools/tla/tla2tools.jar:/opt/veriftools/tla/CommunityModules-deps.jar tla2sany.SANY "$f" > /tmp/sany.$$ 2>&1 || { cat /tmp/sany.$$; rm -f /tmp/sany.$$; echo "SANY failed on $f"; exit 1; }
  if grep -q "^\*\*\* Errors\|Fatal errors\|Could not parse" /tmp/sany.$$; then cat /tmp/sany.$$; rm -f /tmp/sany.$$; exit 1; fi
done
rm -f /tmp/sany.$$
if [ -f /verif/harness/fi_shim.c ]; then
  gcc -shared -fPIC -O1 -o /verif/harness/fi_shim.so /verif/harness/fi_shim.c -ldl -lpthread
fi
echo "setup ok"
