#!/venv/bin/python
"""Anti-vacuity for the exhaustive models: every specification carries a constant `Bug`; with Bug = "none" the
invariants hold, and each seeded design fault must make TLC report a violation of the expected invariant.
Writes /verif/selftest/MODEL_MUTANTS.json; exit 0 iff all as expected."""
import json
import sys
from pathlib import Path

sys.path.insert(0, "/verif")
from harness import common as C  # noqa: E402

CASES = [
    ("Checkpoint", "CheckpointBug_late_snapshot.cfg", "CommittedUntorn"),
    ("Checkpoint", "CheckpointBug_early_commit.cfg", "CommittedUntorn"),
    ("Checkpoint", "CheckpointBug_gc_newest.cfg", "LatestNeverDeleting"),
    ("Checkpoint", "CheckpointBug_label_per_call.cfg", "CommittedUntorn"),
    ("Checkpoint", "CheckpointBug_no_final_save.cfg", "LastIterationSaved"),
    ("Checkpoint", "CheckpointExplicitReachKF.cfg", "LastIterationSaved"),
    ("CheckpointDirs", "CheckpointDirsBug_restore_reads_config_dir.cfg", "RestoreReadsSource"),
    ("CheckpointDirs", "CheckpointDirsBug_default_dir_adopts_previous.cfg", "DefaultDirIsOwn"),
    ("Solvers", "SolversBug_rvi_gain_zero.cfg", "RVIResidualWithinEps"),
    ("Solvers", "SolversBug_pvi_ring_mod_period.cfg", "RingEqualsDocumented"),
    ("Solvers", "SolversBug_threshold_no_gamma.cfg", "VI"),
    ("SolveLoop", "SolveLoopBug_no_break.cfg", "Inv"),
    ("PIModel", "PIModelBug_all_components.cfg", "PI"),
    ("GaussSeidel", "GaussSeidelBug_unmasked_scatter.cfg", "Written"),
    ("GaussSeidel", "GaussSeidelBug_perm_as_inverse.cfg", "NaturalOrder"),
    ("Matrices", "MatricesBug_max_before_abs.cfg", "ErrorIffDeviation"),
    ("Batching", "BatchingBug_floor_division.cfg", "InvLayout"),
    ("Inventory", "InventoryBug_demand_from_closing.cfg", "Conservation"),
]
out = []
for module, cfg, expect in CASES:
    res = C.run_tlc(module, cfg, extra=["-seed", "1"], timeout=1200)
    viol = res.violated
    ok = any(expect in v for v in viol)
    out.append({"module": module, "cfg": cfg, "violated": viol, "expected_prefix": expect, "as_expected": ok,
                "states": res.distinct})
    print(("ok  " if ok else "FAIL"), module, cfg, viol)
Path("/verif/selftest").mkdir(exist_ok=True)
Path("/verif/selftest/MODEL_MUTANTS.json").write_text(json.dumps(out, indent=1))
sys.exit(0 if all(o["as_expected"] for o in out) else 1)
