#!/venv/bin/python
"""Confirm a seeded change produced by a sub-agent and file it under /verif/seeded/<id>/.

usage: confirm_seed.py <ID> <PROP> "<needs>" <test path/expr>...
Runs, in the agent's scratch worktree /tmp/wt/<ID>: demo with the patch (must exit 1), demo without
(must exit 0), and the named test files with the patch (must pass).  Writes meta.json.
"""
import json, os, shutil, subprocess, sys
from pathlib import Path

ID, PROP, NEEDS, tests = sys.argv[1], sys.argv[2], sys.argv[3], sys.argv[4:]
wt, demo = Path(f"/tmp/wt/{ID}"), Path(f"/tmp/wt/{ID}_demo")
env = dict(os.environ, JAX_PLATFORMS="cpu", PYTHONPATH=f"{wt}/src", MDPAX_VERIF="0")
env.pop("XLA_FLAGS", None)

def sh(cmd, **kw):
    return subprocess.run(cmd, shell=True, capture_output=True, text=True, cwd=wt, env=env, **kw)

patch = demo / "patch.diff"
cur = sh("git diff").stdout
if cur.strip() != patch.read_text().strip():
    print("NOTE: worktree diff differs from patch.diff; resetting worktree to patch")
    sh("git checkout -- . && git apply " + str(patch))
r1 = sh(f"/venv/bin/python {demo}/demo.py", timeout=1800)
sh(f"git apply -R {patch}")
r0 = sh(f"/venv/bin/python {demo}/demo.py", timeout=1800)
sh(f"git apply {patch}")
print("demo with patch exit", r1.returncode, "| without", r0.returncode)
tcmd = ("/venv/bin/python -m pytest -q -p no:cacheprovider --timeout=900 --no-cov -k 'not viso' "
        + " ".join(tests))
rt = sh(tcmd, timeout=3000)
tail = rt.stdout.strip().splitlines()[-1] if rt.stdout.strip() else rt.stderr[-300:]
print("tests:", tail)
ok = r1.returncode == 1 and r0.returncode == 0 and rt.returncode == 0
dst = Path(f"/verif/seeded/{ID}")
if ok:
    dst.mkdir(parents=True, exist_ok=True)
    shutil.copy(patch, dst / "patch.diff")
    shutil.copy(demo / "demo.py", dst / "demo.py")
    if (demo / "notes.md").exists():
        shutil.copy(demo / "notes.md", dst / "notes.md")
    meta = {"id": ID, "breaks_property": PROP, "needs_to_manifest": NEEDS,
            "confirmed": {"demo_exit_with_patch": r1.returncode, "demo_exit_without_patch": r0.returncode,
                          "demo_output_with_patch_tail": (r1.stdout + r1.stderr)[-600:],
                          "tests_run_with_patch": tcmd, "tests_result": tail},
            "detected_by": []}
    (dst / "meta.json").write_text(json.dumps(meta, indent=1))
    print("FILED", dst)
else:
    print("NOT CONFIRMED", (r1.stdout + r1.stderr)[-500:], (r0.stdout + r0.stderr)[-500:])
sys.exit(0 if ok else 1)
