BUILT["C18"] = (
 "TLC exhaustive model of the documented batch layout (layer-P invariants over a box) + TLC trace validation of the real BatchProcessor at every point",
 "TLC enumerates every (n_states, max_batch_size, devices) point of a bounded box on the TLA+ model of the documented layout and checks the property's predicates as invariants; every point is also executed on the real BatchProcessor (attributes, prepare_batches on numbered states, unbatch_results with trailing shapes (), (2,), (2,3)) and TLC judges each observation with the same predicates. Right level: the property is a for-all over a finite integer box; exhaustive inside the box, nothing outside.",
 "Trusted: TLC; the 60-line projection in harness/workers/batching_worker.py; device counts passed explicitly except for the emulated-device cases. Bounds: quick n<=10 full + 16 selected n up to 257; thorough n<=40 full + ~60 selected n up to 700.",
 "DESIGN.md 3/C18")
BUILT["C19"] = (
 "TLC exhaustive model of the documented range space (all boxes in a bounded range) + TLC trace validation of the real create_range_space on every box and every vector of the enlarged box",
 "TLC enumerates all boxes (dimension 1-2 bounds -2..3; dimension 3 bounds -1..2) on the TLA+ definition of row-major enumeration and clipped indexing with the inverse/no-duplicate/nearest-row invariants; the real create_range_space is executed on every box (plus sampled dimension-4 boxes), its space rows and its index function on every vector inside and one unit outside are judged by TLC with the same predicates.",
 "Trusted: TLC; harness/workers/rangespace_worker.py (vmapped index_fn). Bounds as stated; larger bounds/dimensions unverified.",
 "DESIGN.md 3/C19")
