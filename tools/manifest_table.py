BUILT["C18"] = (
 "TLC exhaustive model of the documented batch layout (layer-P invariants over a box) + TLC trace validation of the real BatchProcessor at every point",
 "TLC enumerates every (n_states, max_batch_size, devices) point of a bounded box on the TLA+ model of the documented layout and checks the property's predicates as invariants; every point is also executed on the real BatchProcessor (attributes, prepare_batches on numbered states, unbatch_results with trailing shapes (), (2,), (2,3)) and TLC judges each observation with the same predicates. Right level: the property is a for-all over a finite integer box; exhaustive inside the box, nothing outside.",
 "Trusted: TLC; the 60-line projection in harness/workers/batching_worker.py; device counts passed explicitly except for the emulated-device cases. Bounds: quick n<=10 full + 16 selected n up to 257; thorough n<=40 full + ~60 selected n up to 700.",
 "DESIGN.md 3/C18")
BUILT["C19"] = (
 "TLC exhaustive model of the documented range space (all boxes in a bounded range) + TLC trace validation of the real create_range_space on every box and every vector of the enlarged box",
 "TLC enumerates all boxes (dimension 1-2 bounds -2..3; dimension 3 bounds -1..2) on the TLA+ definition of row-major enumeration and clipped indexing with the inverse/no-duplicate/nearest-row invariants; the real create_range_space is executed on every box (plus sampled dimension-4 boxes), its space rows and its index function on every vector inside and one unit outside are judged by TLC with the same predicates.",
 "Trusted: TLC; harness/workers/rangespace_worker.py (vmapped index_fn). Bounds as stated; larger bounds/dimensions unverified.",
 "DESIGN.md 3/C19")
_SOLVER_NOTE = ("Trusted: TLC; the TabularProblem renderer and the float->integer projection (harness/tabular.py, "
                "harness/workers/solver_worker.py: a value not exactly representable at the trace scale is logged as such and "
                "rejected); Python Fractions only PROPOSE certificates, TLC verifies each before use. Bounds: dyadic MDP families "
                "(probabilities k/PD, gamma in {1/4,1/2,3/4,1}, dyadic rewards/epsilon), <= ~120 states, sweep depth limited by "
                "32-bit fixed point (longer traces are truncated and only their prefix judged). Hooks: sweep/converged/solve events.")
BUILT["C02"] = (
 "TLC model of the Bellman backup (laws checked for all grid vectors on seeded gadgets) + TLC trace validation of single real sweeps from injected value vectors, exact integer equality",
 "TLC checks monotonicity, gamma-contraction, the shift law and greedy=argmax of the TLA+ backup operator for every pair of grid vectors on seeded gadget MDPs; real ValueIteration sweeps from injected value vectors (unions of dyadic gadgets rendered with multi-dimensional states, vector actions, duplicate actions, array-valued probabilities, padded last batches) are recorded by the hooks and judged by SolverTrace.tla: new values must equal the exact backup state by state, the measure must be the documented one, the returned policy must be in the argmax set.",
 _SOLVER_NOTE, "DESIGN.md 3/C02")
BUILT["C04"] = (
 "TLC exhaustive model of the RVI machine on seeded unichain gadgets (optimality-equation residual invariant) + TLC trace validation of real RVI runs with TLC-verified gain/bias certificates",
 "TLC runs the relative-value-iteration machine, modelled as the code does it, to its stop on seeded unichain gadgets x initial values x tolerances and checks the optimality-equation residual, boundedness and stop-rule invariants; real RVI runs on seeded unichain aperiodic dyadic MDPs (incl. fast-mixing and constant-reward families) are judged sweep by sweep, and at convergence the reported gain, the exact gain of the returned policy and the optimality-equation residual are compared with epsilon against a (gain, bias) certificate that TLC first verifies through h + g = T h.",
 _SOLVER_NOTE, "DESIGN.md 3/C04")
BUILT["C08"] = (
 "TLC exhaustive model of the solve() loop over ALL measure sequences x call sequences with merged-call self-composition + TLC trace validation of real call sequences on VI/SAVI/RVI/PVI",
 "TLC explores the solve-loop machine (Call/Sweep/Test/Return) for every subset of below-threshold iterations and every call sequence of up to 3 calls next to the merged single call, with the limit, stop-at-first, count=backups and composability invariants; real solvers execute call sequences from the same set and every begin/sweep/converged/end event is judged by SolverTrace.tla (at most k sweeps, stop exactly at the first below-threshold sweep with measure and threshold exact, reported iteration = sweeps applied, values = that many exact backups of the problem's initial values, policy greedy).",
 _SOLVER_NOTE, "DESIGN.md 3/C08")
