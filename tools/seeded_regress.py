#!/venv/bin/python
"""Regression over the filed seeded changes: every /verif/seeded/<id>/patch.diff must still apply to /repo's HEAD and
still be reported (exit 1 with a VIOLATION line) by every check listed in its meta.json "detected_by".

usage: tools/seeded_regress.py [-j N] [id ...]      writes /verif/seeded/REGRESS.json; exit 0 iff all as expected
Each run uses its own scratch worktree and its own VERIF_OUT directory (evidence of the real tree is not touched).
"""
import concurrent.futures as cf
import json
import os
import shutil
import subprocess
import sys
import tempfile
from pathlib import Path

SEEDED = Path("/verif/seeded")


def one(sid):
    meta = json.loads((SEEDED / sid / "meta.json").read_text())
    wt = tempfile.mkdtemp(prefix=f"seedwt-{sid}-")
    out = tempfile.mkdtemp(prefix=f"seedout-{sid}-")
    os.rmdir(wt)
    res = {"id": sid, "checks": {}, "applies": False, "not_caught": bool(meta.get("not_caught"))}
    try:
        subprocess.run(["git", "-C", "/repo", "worktree", "add", "-q", "--detach", wt, "HEAD"], check=True)
        a = subprocess.run(["git", "-C", wt, "apply", str(SEEDED / sid / "patch.diff")], capture_output=True, text=True)
        res["applies"] = a.returncode == 0
        if not res["applies"]:
            res["error"] = a.stderr[-300:]
            return res
        for chk in meta.get("detected_by", []):
            env = dict(os.environ, VERIF_REPO=wt, VERIF_OUT=out)
            p = subprocess.run(["/verif/check", chk, "--tier", meta.get("tier", "quick")], capture_output=True, text=True, env=env)
            res["checks"][chk] = {"exit": p.returncode, "violations": p.stdout.count("\nVIOLATION") + p.stdout.startswith("VIOLATION")}
    finally:
        subprocess.run(["git", "-C", "/repo", "worktree", "remove", "--force", wt], capture_output=True)
        shutil.rmtree(out, ignore_errors=True)
    return res


def main():
    args = sys.argv[1:]
    jobs = 3
    if args[:1] == ["-j"]:
        jobs, args = int(args[1]), args[2:]
    ids = args or sorted(d.name for d in SEEDED.iterdir() if (d / "meta.json").exists())
    results = []
    with cf.ThreadPoolExecutor(jobs) as ex:
        for r in ex.map(one, ids):
            ok = r["applies"] and r["checks"] and all(c["exit"] == 1 and c["violations"] > 0 for c in r["checks"].values())
            if r.get("not_caught"):
                ok = r["applies"]            # filed as a known miss: only required to apply
            r["as_expected"] = bool(ok)
            print(("ok  " if ok else "FAIL"), r["id"], r["checks"] if r["applies"] else "PATCH DOES NOT APPLY", flush=True)
            results.append(r)
    bad = [r["id"] for r in results if not r["as_expected"]]
    (SEEDED / "REGRESS.json").write_text(json.dumps({"total": len(results), "unexpected": bad, "results": results}, indent=1))
    print(f"{len(results) - len(bad)}/{len(results)} seeded changes still caught by the checks that are recorded as catching them")
    sys.exit(1 if bad else 0)


if __name__ == "__main__":
    main()
